#!/bin/sh
# tools/sweep.sh "<seeds>" [tier] : runs every check at several VERIF_SEED values; prints one line per run (quietness sweep).
SEEDS="${1:-2 3 4 5 6}"; TIER="${2:-quick}"
cd "$(dirname "$0")/.." || exit 2
for s in $SEEDS; do
  for i in 01 02 03 04 05 06 07 08 09 10 11 12 13 14 15 16 17 18 19 20; do
    VERIF_SEED=$s ./check C$i $TIER > sweep.$s.C$i.log 2>&1; rc=$?
    echo "seed=$s C$i rc=$rc $(grep -c '^VIOLATION' sweep.$s.C$i.log) $(head -1 sweep.$s.C$i.log | cut -c1-140)"
    [ $rc -ne 0 ] && grep -m3 'failure\|harness' sweep.$s.C$i.log | cut -c1-400
  done
done
