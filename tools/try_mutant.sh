#!/bin/sh
# tools/try_mutant.sh <patch.diff> <ID> [<ID>...] : apply a seeded change in a scratch worktree of /repo (never in /repo itself),
# run the quick checks against it through VF_REPO, remove the worktree.
P="$1"; shift
WT=/tmp/vf_try.$$
git -C /repo worktree add --detach "$WT" HEAD >/dev/null 2>&1 || { echo "cannot create worktree"; exit 2; }
trap 'git -C /repo worktree remove --force "$WT" >/dev/null 2>&1' EXIT
git -C "$WT" apply "$P" 2>/dev/null || git -C "$WT" apply --3way "$P" 2>/dev/null || { echo "PATCH DOES NOT APPLY: $P"; exit 3; }
cd /verif
for id in "$@"; do
  VF_REPO="$WT" ./check "$id" quick > /tmp/mut.$$.log 2>&1; rc=$?
  echo "== $id rc=$rc $(grep -c VIOLATION /tmp/mut.$$.log) violation lines"; grep -m2 "failure" /tmp/mut.$$.log | cut -c1-300
done
rm -f /tmp/mut.$$.log
