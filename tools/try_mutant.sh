#!/bin/sh
# tools/try_mutant.sh <patch.diff> <ID> [<ID>...] : apply a seeded change to /repo, run the quick checks, undo it.
P="$1"; shift
cd /repo || exit 2
git diff --quiet || { echo "/repo has uncommitted changes"; exit 2; }
git apply --check "$P" 2>/dev/null || { echo "PATCH DOES NOT APPLY: $P"; exit 3; }
git apply "$P"
cd /verif
for id in "$@"; do
  ./check "$id" quick > /tmp/mut.$$.log 2>&1; rc=$?
  echo "== $id rc=$rc $(grep -c VIOLATION /tmp/mut.$$.log) violation lines"; grep -m2 "failure" /tmp/mut.$$.log | cut -c1-300
done
git -C /repo checkout -- . ; rm -f /tmp/mut.$$.log
