#!/bin/sh
# tools/sweep_some.sh <seed> <tier> <ID>... : like sweep.sh for a subset of checks.
S="$1"; T="$2"; shift 2
cd "$(dirname "$0")/.." || exit 2
for id in "$@"; do
  VERIF_SEED=$S ./check $id $T > sweep.$S.$id.log 2>&1; rc=$?
  echo "seed=$S $id rc=$rc $(grep -c '^VIOLATION' sweep.$S.$id.log) $(head -1 sweep.$S.$id.log | cut -c1-140)"
  [ $rc -ne 0 ] && grep -m3 'failure\|harness' sweep.$S.$id.log | cut -c1-400
done
