#!/venv/bin/python
"""Evaluates the independently written seeded changes (/tmp/seed/Cxx/_seed/{A,B}) in a scratch worktree of /repo:
   demo passes without the change, change applies, repository tests still pass, demo fails with the change, and which of
   the quick checks raise a VIOLATION with the change applied (VF_REPO points the checks at the scratch worktree; /repo is
   never touched).  Keeps confirmed changes under /verif/seeded/<id>/ (patch.diff, demo.py, meta.json).
   usage: tools/eval_seeded.py [ids...]     e.g. C01-A C14-B   (default: all)"""
import json
import os
import shutil
import subprocess
import sys

SEED = os.environ.get("SEED_DIR", "/tmp/seed")
SUFFIX = os.environ.get("ID_SUFFIX", "")          # e.g. "2" -> ids like C01-A2 for a second round
ONLY_OWN = bool(os.environ.get("ONLY_OWN"))
WT = os.environ.get("EVAL_WT", "/tmp/vf_seed_eval")
OUT = "/verif/seeded"
ENV = dict(os.environ, OMP_NUM_THREADS="1", MKL_NUM_THREADS="1", PYTHONDONTWRITEBYTECODE="1")
# besides its own property, changes are also run against these related checks
EXTRA = {"C03": ["C01"], "C04": ["C05", "C18"], "C02": ["C15"], "C10": ["C11", "C01"], "C11": ["C10"], "C12": ["C14"], "C09": ["C17", "C02"],
         "C17": ["C09"], "C05": ["C04"], "C15": ["C02"], "C19": ["C01"], "C01": ["C10"], "C13": ["C12"], "C18": ["C04"], "C16": [], "C20": ["C06"]}


def sh(cmd, cwd=None, env=None, timeout=1800):
    p = subprocess.run(cmd, shell=True, cwd=cwd, env=env or ENV, capture_output=True, text=True, timeout=timeout)
    return p.returncode, (p.stdout + p.stderr)


def main():
    want = set(sys.argv[1:])
    if not os.path.isdir(WT):
        rc, out = sh("git -C /repo worktree add --detach %s HEAD" % WT)
        assert rc == 0, out
    head = sh("git -C /repo rev-parse --short HEAD")[1].strip()
    sh("git -C %s checkout -q --detach %s" % (WT, head))
    os.makedirs(OUT, exist_ok=True)
    summary = []
    for prop in sorted(os.listdir(SEED)):
        d = os.path.join(SEED, prop, "_seed")
        if not (prop.startswith("C") and os.path.isdir(d)):
            continue
        for ab in ("A", "B"):
            mid = "%s-%s%s" % (prop, ab, SUFFIX)
            src = os.path.join(d, ab)
            if want and mid not in want:
                continue
            if not os.path.exists(os.path.join(src, "patch.diff")):
                continue
            meta_in = {}
            try:
                meta_in = json.load(open(os.path.join(src, "meta.json")))
            except Exception:
                pass
            rec = {"id": mid, "property": prop, "summary": meta_in.get("summary", ""), "needs": meta_in.get("needs", ""),
                   "why_tests_pass": meta_in.get("why_tests_pass", ""), "base_commit_checked": head, "ran": []}
            sh("git checkout -q -- . && git clean -fdq", cwd=WT)
            demo = os.path.join(src, "demo.py")
            envd = dict(ENV, PYTHONPATH=WT)
            rc0, out0 = sh("/venv/bin/python -W ignore %s" % demo, cwd=WT, env=envd, timeout=600)
            rec["ran"].append("demo on unchanged tree: exit %d" % rc0)
            patch = os.path.join(src, "patch.diff")
            applied = None
            for cand, how in ((patch, "git apply"), (os.path.join(src, "patch_rebased.diff"), "git apply (hand-rebased)"), (patch, "git apply --3way")):
                if not os.path.exists(cand):
                    continue
                sh("git checkout -q -- . && git clean -fdq", cwd=WT)
                rc, out = sh("git apply %s %s" % ("--3way" if "3way" in how else "", cand), cwd=WT)
                if rc == 0 and "conflict" not in out.lower():
                    applied = (cand, how)
                    break
            if not applied:
                rec["status"] = "patch does not apply to the repaired tree (the lines it changes were rewritten by a fix: commit)"
                rec["ran"].append("git apply / --3way failed")
                summary.append((mid, rec["status"], [], []))
                _save(mid, src, None, rec)
                continue
            rec["ran"].append("%s: ok" % applied[1])
            diff = sh("git diff -- nflows", cwd=WT)[1]
            rc1, out1 = sh("/venv/bin/python -W ignore %s" % demo, cwd=WT, env=envd, timeout=600)
            rec["ran"].append("demo with the change: exit %d" % rc1)
            rct, outt = sh("/venv/bin/python -m pytest -q -p no:cacheprovider tests 2>&1 | tail -3", cwd=WT, env=envd, timeout=900)
            tests_ok = " failed" not in outt and "passed" in outt
            if not tests_ok:   # one retry for the known random flake in the cubic round-trip tests
                rct, outt = sh("/venv/bin/python -m pytest -q -p no:cacheprovider tests 2>&1 | tail -3", cwd=WT, env=envd, timeout=900)
                tests_ok = " failed" not in outt and "passed" in outt
            rec["ran"].append("repository tests with the change: %s" % outt.strip().splitlines()[-1] if outt.strip() else "no output")
            confirmed = rc0 == 0 and rc1 != 0 and tests_ok
            rec["confirmed"] = confirmed
            caught, missed = [], []
            for cid in [prop] + ([] if ONLY_OWN else EXTRA.get(prop, [])):
                rcc, outc = sh("./check %s quick" % cid, cwd="/verif", env=dict(ENV, VF_REPO=WT, VERIF_SEED="1"), timeout=1200)
                first = next((l for l in outc.splitlines() if l.strip().startswith("failure:")), "")
                (caught if rcc == 1 else missed).append(cid)
                rec["ran"].append("VF_REPO=<scratch> ./check %s quick: exit %d %s" % (cid, rcc, first.strip()[:260]))
            if ONLY_OWN:
                # keep what an earlier full evaluation recorded about the other checks
                try:
                    old = json.load(open(os.path.join(OUT, mid, "meta.json")))
                    caught += [c for c in old.get("caught_by", []) if c != prop and c not in caught]
                    missed += [c for c in old.get("not_caught_by", []) if c != prop and c not in missed and c not in caught]
                    rec["other_checks_from_earlier_run"] = True
                except Exception:
                    pass
            rec["caught_by"] = caught
            rec["not_caught_by"] = missed
            rec["status"] = "confirmed" if confirmed else "NOT confirmed (demo unchanged=%d, demo changed=%d, tests ok=%s)" % (rc0, rc1, tests_ok)
            _save(mid, src, diff, rec)
            summary.append((mid, rec["status"], caught, missed))
            print(mid, rec["status"], "caught by", caught, "missed by", missed, flush=True)
    sh("git checkout -q -- . && git clean -fdq", cwd=WT)
    sh("git -C /repo worktree remove --force %s" % WT)
    rows = []
    for d in sorted(os.listdir(OUT)):
        mp = os.path.join(OUT, d, "meta.json")
        if os.path.exists(mp):
            m = json.load(open(mp))
            rows.append({"id": m["id"], "status": m.get("status"), "caught_by": m.get("caught_by", []), "not_caught_by": m.get("not_caught_by", [])})
    with open(os.path.join(OUT, "SUMMARY.json"), "w") as fh:
        json.dump(rows, fh, indent=1)


def _save(mid, src, diff, rec):
    dst = os.path.join(OUT, mid)
    os.makedirs(dst, exist_ok=True)
    if diff:
        with open(os.path.join(dst, "patch.diff"), "w") as fh:
            fh.write(diff)
    else:
        shutil.copy(os.path.join(src, "patch.diff"), os.path.join(dst, "patch.diff.original"))
    shutil.copy(os.path.join(src, "demo.py"), os.path.join(dst, "demo.py"))
    with open(os.path.join(dst, "meta.json"), "w") as fh:
        json.dump(rec, fh, indent=1)


if __name__ == "__main__":
    main()
