#!/bin/sh
# Offline setup after a fresh restore: make sure hypothesis is importable for /venv's python, then self-test the
# numerical oracles (quadrature, KS) on integrands with known answers.
HERE="$(cd "$(dirname "$0")" && pwd)"; cd "$HERE" || exit 2
PY="${VF_PYTHON:-/venv/bin/python}"
if ! PYTHONPATH="$HERE/.deps" "$PY" -c "import hypothesis" >/dev/null 2>&1; then
  PIP_NO_INDEX=1 "$PY" -m pip install -q --no-index --find-links /opt/veriftools/wheels --target "$HERE/.deps" hypothesis || exit 2
fi
PYTHONPATH="/repo:$HERE:$HERE/.deps" OMP_NUM_THREADS=1 "$PY" -W ignore -m vf.selfcheck || exit 2
echo "setup ok"
