#!/bin/sh
# Repository baseline (guard off): the pinned 147-test suite, single-threaded BLAS to avoid oversubscription.
cd "${VF_REPO:-/repo}" && OMP_NUM_THREADS=1 MKL_NUM_THREADS=1 /venv/bin/python -m pytest -ra -q -p no:cacheprovider --timeout=900 --continue-on-collection-errors "$@"
