"""Self-test of harness-side numerics (run from setup.sh): a broken oracle must never look like a library defect."""
import sys


def main():
    import hypothesis  # noqa
    import torch  # noqa
    import nflows  # noqa
    try:
        from vf import oracles
    except ImportError:
        return 0
    if hasattr(oracles, "selftest"):
        oracles.selftest()
    return 0


if __name__ == "__main__":
    sys.exit(main())
