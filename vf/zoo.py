"""The zoo: JSON spec -> nflows object (+ what the harness needs to know about it), and Hypothesis strategies for
specs restricted to what the constructors accept.  See DESIGN.md 1.4."""
import math

import numpy as np
import torch
from torch import nn
from torch.nn import functional as F
from hypothesis import strategies as st

ACTS = {"relu": F.relu, "tanh": torch.tanh, "softplus": F.softplus, "identity": (lambda x: x), "elu": F.elu}
SMOOTH_ACTS = ("tanh", "softplus", "identity")


class Built:
    def __init__(self, module, in_shape, out_shape=None, dom="R", rng="R", **kw):
        self.module = module
        self.in_shape = list(in_shape)
        self.out_shape = list(out_shape if out_shape is not None else in_shape)
        self.dom = dom          # "R", "unit", "pos", "sym1", ["box", lo, hi], "any"
        self.rng = rng          # same vocabulary; "same" = whatever came in
        self.A_out = kw.get("A_out", 0.0)     # declared approximation constants (absolute, outputs)
        self.A_ld = kw.get("A_ld", 0.0)       # ... log-abs-det
        self.A_inv = kw.get("A_inv", 0.0)     # ... extra for the inverse direction
        self.smooth = kw.get("smooth", True)  # C1 away from special points -> finite differences are trustworthy
        self.knots = kw.get("knots", None)    # callable() -> tensor [*in_shape, K+1] of input-side knots (aim only)
        self.specials = list(kw.get("specials", []))
        self.parts = kw.get("parts", None)
        self.uses_ctx = kw.get("uses_ctx", False)
        self.invertible = kw.get("invertible", True)
        self.inv_via_forward = kw.get("inv_via_forward", False)
        self.umnn = kw.get("umnn", False)
        self.elementwise = kw.get("elementwise", False)
        self.affine = kw.get("affine", False)   # the map is affine in x (for non-triviality rules)
        self.tags = list(kw.get("tags", []))
        self.batch_coupled_in_train = kw.get("batch_coupled_in_train", False)
        self.family = kw.get("family", None)
        self.onto = kw.get("onto", None)  # None -> derived: leaf maps its nominal domain onto its nominal range


# ------------------------------------------------------------------------------------------------------------------
# spline helpers (aim only)

def input_knots(family, uw, left, right, min_w=1e-3):
    """Input-side knot positions replicated from the documented parameterisation (softmax -> min-width floor -> cumsum ->
    pin -> box).  Used only to aim inputs at knots, never as an oracle."""
    K = uw.shape[-1]
    if family == "lin":
        loc = torch.linspace(0, 1, K + 1, dtype=uw.dtype).expand(*uw.shape[:-1], K + 1)
    else:
        w = F.softmax(uw, dim=-1)
        w = min_w + (1 - min_w * K) * w
        loc = torch.cumsum(w, dim=-1)
        loc = F.pad(loc, pad=(1, 0), value=0.0)
        loc[..., -1] = 1.0
    return left + (right - left) * loc


class FnSpline(nn.Module):
    """Adapter turning the spline *functions* (public API of nflows.transforms.splines) into a transform-like module so
    that arbitrary boxes (left,right,bottom,top) and the unconstrained_* forms are reachable by the generic checks."""

    def __init__(self, family, shape, bins, box=None, tb=None, init_scale=1.0, extra=None):
        super().__init__()
        from nflows.transforms import splines

        self.family, self.bins, self.box, self.tb = family, bins, box, tb
        self.extra = dict(extra or {})
        sh = list(shape)
        tails = tb is not None
        if family == "lin":
            self.unnormalized_pdf = nn.Parameter(torch.randn(*sh, bins) * init_scale)
        elif family == "quad":
            self.unnormalized_widths = nn.Parameter(torch.randn(*sh, bins) * init_scale)
            self.unnormalized_heights = nn.Parameter(torch.randn(*sh, bins - 1 if tails else bins + 1) * init_scale)
        elif family == "cub":
            self.unnormalized_widths = nn.Parameter(torch.randn(*sh, bins) * init_scale)
            self.unnormalized_heights = nn.Parameter(torch.randn(*sh, bins) * init_scale)
            self.unnorm_derivatives_left = nn.Parameter(torch.randn(*sh, 1) * init_scale)
            self.unnorm_derivatives_right = nn.Parameter(torch.randn(*sh, 1) * init_scale)
        elif family == "rq":
            self.unnormalized_widths = nn.Parameter(torch.randn(*sh, bins) * init_scale)
            self.unnormalized_heights = nn.Parameter(torch.randn(*sh, bins) * init_scale)
            self.unnormalized_derivatives = nn.Parameter(torch.randn(*sh, bins - 1 if tails else bins + 1) * init_scale)
        fns = {"lin": (splines.linear_spline, splines.unconstrained_linear_spline),
               "quad": (splines.quadratic_spline, splines.unconstrained_quadratic_spline),
               "cub": (splines.cubic_spline, splines.unconstrained_cubic_spline),
               "rq": (splines.rational_quadratic_spline, splines.unconstrained_rational_quadratic_spline)}
        self.fn = fns[family][1 if tails else 0]

    def _call(self, inputs, inverse):
        b = inputs.shape[0]
        kw = {n: p[None, ...].expand(b, *p.shape) for n, p in self.named_parameters()}
        if self.tb is not None:
            kw.update(tails="linear", tail_bound=self.tb)
        else:
            l, r, bo, t = self.box
            kw.update(left=l, right=r, bottom=bo, top=t)
        kw.update(self.extra)
        out, lad = self.fn(inputs=inputs, inverse=inverse, **kw)
        from nflows.utils import torchutils

        return out, torchutils.sum_except_batch(lad)

    def forward(self, inputs, context=None):
        return self._call(inputs, False)

    def inverse(self, inputs, context=None):
        return self._call(inputs, True)


def _uw_of(module):
    for n in ("unnormalized_widths", "unnormalized_pdf"):
        if hasattr(module, n):
            return getattr(module, n)
    raise AttributeError


def _cubic_A(module, left, right, family, min_w):
    if family != "cub":
        return 0.0
    with torch.no_grad():
        k = input_knots("cub", _uw_of(module).detach().double(), 0.0, 1.0, min_w)
        w = (k[..., 1:] - k[..., :-1]).max()
    return 1e-3 * float(w) ** 3  # quadratic_threshold: cubic term dropped when |a| < 1e-3 (normalised units)


# ------------------------------------------------------------------------------------------------------------------
# leaf builders

# one list object shared by every UMNN construction, the way a configuration variable is reused: constructors must not modify it
UMNN_LAYERS = [8, 8]


def _img(shape):
    return len(shape) == 3


def _net_fn(spec, shape, ctxk):
    from nflows.nn import nets

    act = ACTS[spec.get("act", "relu")]
    h, nb, bn = spec.get("hidden", 8), spec.get("blocks", 1), spec.get("bn", False)
    if _img(shape):
        return lambda i, o: nets.ConvResidualNet(i, o, hidden_channels=h, context_channels=ctxk, num_blocks=nb,
                                                 activation=act, dropout_probability=spec.get("dropout", 0.0),
                                                 use_batch_norm=bn)
    return lambda i, o: nets.ResidualNet(i, o, hidden_features=h, context_features=ctxk, num_blocks=nb, activation=act,
                                         dropout_probability=spec.get("dropout", 0.0), use_batch_norm=bn)


def _spline_dom(spec):
    if spec.get("tails") == "linear":
        return "R", "R"
    return "unit", "unit"


def _spline_specials(spec):
    if spec.get("tails") == "linear":
        tb = float(spec.get("tb", 1.0))
        return [0.0, tb, -tb, float(np.nextafter(np.float32(tb), np.float32(0))), float(np.nextafter(np.float32(tb), np.float32(np.inf))),
                -float(np.nextafter(np.float32(tb), np.float32(np.inf))), 2 * tb, -3 * tb]
    return [0.0, 1.0, 0.5, float(np.nextafter(np.float32(1), np.float32(0))), float(np.nextafter(np.float32(0), np.float32(1)))]


FAM_OF = {"cdf_lin": "lin", "cdf_quad": "quad", "cdf_cub": "cub", "cdf_rq": "rq", "fn_lin": "lin", "fn_quad": "quad",
          "fn_cub": "cub", "fn_rq": "rq", "c_lin": "lin", "c_quad": "quad", "c_cub": "cub", "c_rq": "rq",
          "ar_lin": "lin", "ar_quad": "quad", "ar_cub": "cub", "ar_rq": "rq"}


def build_leaf(spec, shape, ctxk):
    from nflows import transforms as T
    from nflows.transforms import nonlinearities as NL

    t = spec["t"]
    if FAM_OF.get(t) == "cub":
        # the cubic root selection accepts roots within eps=1e-5 of a bin: bins must be much wider than that (declared
        # constant), so floors below the default 1e-3 are outside the cubic family's envelope
        spec = dict(spec)
        for k in ("min_bin_width", "min_bin_height"):
            if k in spec and spec[k] < 1e-3:
                spec[k] = 1e-3
        if spec.get("extra"):
            spec["extra"] = {k: (max(v, 1e-3) if k in ("min_bin_width", "min_bin_height") else v) for k, v in spec["extra"].items()}
    D = int(np.prod(shape))
    if t == "identity":
        return Built(T.IdentityTransform(), shape, dom="any", rng="same", elementwise=True, affine=True)
    if t == "paffine":
        sh, sc = spec.get("shift", 0.0), spec.get("scale", 1.0)
        sh = torch.tensor(sh, dtype=torch.get_default_dtype()) if isinstance(sh, list) else sh
        sc = torch.tensor(sc, dtype=torch.get_default_dtype()) if isinstance(sc, list) else sc
        return Built(T.PointwiseAffineTransform(shift=sh, scale=sc), shape, elementwise=True, affine=True)
    if t == "exp":
        return Built(T.Exp(), shape, rng="pos", elementwise=True, specials=[0.0])
    if t == "tanh":
        return Built(T.Tanh(), shape, rng="sym1", elementwise=True, specials=[0.0])
    if t == "logtanh":
        c = float(spec.get("cut", 1.0))
        return Built(T.LogTanh(cut_point=c), shape, elementwise=True, smooth=False,
                     specials=[0.0, c, -c, float(np.nextafter(c, 9e9)), -float(np.nextafter(c, 9e9)), 3 * c, -3 * c])
    if t == "leakyrelu":
        return Built(T.LeakyReLU(negative_slope=float(spec.get("slope", 1e-2))), shape, elementwise=True, smooth=False,
                     specials=[0.0, -0.0, 1e-30, -1e-30, 1.0, -1.0])
    if t == "sigmoid":
        return Built(T.Sigmoid(temperature=float(spec.get("temp", 1.0)), learn_temperature=bool(spec.get("learn", False))),
                     shape, rng="unit", elementwise=True, A_inv=2e-6, specials=[0.0, 10.0, -10.0], tags=["sigmoid"])
    if t == "logit":
        return Built(T.Logit(temperature=float(spec.get("temp", 1.0))), shape, dom="unit", rng="R", elementwise=True,
                     A_out=0.0, A_inv=0.0, specials=[0.5, 1e-3, 1 - 1e-3], tags=["logit"])
    if t == "cauchycdf":
        return Built(NL.CauchyCDF(), shape, rng="unit", elementwise=True, specials=[0.0])
    if t == "cauchycdfinv":
        return Built(NL.CauchyCDFInverse(), shape, dom="unit", rng="R", elementwise=True, specials=[0.5, 0.25])
    if t in ("cdf_lin", "cdf_quad", "cdf_cub", "cdf_rq"):
        fam = FAM_OF[t]
        cls = {"lin": T.PiecewiseLinearCDF, "quad": T.PiecewiseQuadraticCDF, "cub": T.PiecewiseCubicCDF,
               "rq": T.PiecewiseRationalQuadraticCDF}[fam]
        kw = dict(shape=list(shape), num_bins=spec.get("bins", 4), tails=spec.get("tails"), tail_bound=float(spec.get("tb", 1.0)))
        if fam == "rq" and spec.get("identity_init"):
            kw["identity_init"] = True
        for k in ("min_bin_width", "min_bin_height", "min_derivative"):
            if k in spec and fam != "lin" and not (k == "min_derivative" and fam != "rq"):
                kw[k] = spec[k]
        m = cls(**kw)
        dom, rng = _spline_dom(spec)
        lo, hi = (-kw["tail_bound"], kw["tail_bound"]) if spec.get("tails") else (0.0, 1.0)
        minw = kw.get("min_bin_width", 1e-3)
        return Built(m, shape, dom=dom, rng=rng, elementwise=True, smooth=(fam != "lin"), family=fam,
                     knots=lambda m=m, fam=fam, lo=lo, hi=hi, minw=minw: input_knots(fam, _uw_of(m).detach(), lo, hi, minw),
                     specials=_spline_specials(spec), A_inv=("cubic", lo, hi, minw) if fam == "cub" else 0.0, tags=["spline"])
    if t in ("fn_lin", "fn_quad", "fn_cub", "fn_rq"):
        fam = FAM_OF[t]
        box, tb = spec.get("box"), spec.get("tb")
        m = FnSpline(fam, shape, spec.get("bins", 4), box=box, tb=tb, extra=spec.get("extra"))
        if tb is not None:
            dom = rng = "R"
            lo, hi = -tb, tb
            sp = _spline_specials({"tails": "linear", "tb": tb})
        else:
            dom, rng = ["box", box[0], box[1]], ["box", box[2], box[3]]
            lo, hi = box[0], box[1]
            sp = [lo, hi, 0.5 * (lo + hi)]
        minw = (spec.get("extra") or {}).get("min_bin_width", 1e-3)
        return Built(m, shape, dom=dom, rng=rng, elementwise=True, smooth=(fam != "lin"), family=fam,
                     knots=lambda m=m, fam=fam, lo=lo, hi=hi, minw=minw: input_knots(fam, _uw_of(m).detach(), lo, hi, minw),
                     specials=sp, A_inv=("cubic", lo, hi, minw) if fam == "cub" else 0.0, tags=["spline", "fn"])
    if t == "compositecdf":
        sq = build_leaf(spec["squash"], shape, ctxk)
        cdf = build_leaf(spec["cdf"], shape, ctxk)
        m = T.CompositeCDFTransform(sq.module, cdf.module)
        bb = Built(m, shape, elementwise=True, smooth=cdf.smooth, A_inv=2e-6, specials=[0.0], tags=["spline", "compositecdf"],
                   parts=None)
        bb.cdf_parts = (sq, cdf)     # the objects handed to the constructor (C08 chains them by hand)
        return bb
    if t == "glu":
        return Built(T.GatedLinearUnit(), shape, elementwise=True, uses_ctx=True, tags=["glu"])
    if t in ("perm", "randperm", "revperm"):
        dim = spec.get("dim", 1)
        n = shape[dim - 1]
        if t == "perm":
            m = T.Permutation(torch.tensor(spec["perm"], dtype=torch.long), dim=dim)
        elif t == "randperm":
            g = torch.random.get_rng_state()
            torch.manual_seed(spec.get("seed", 0))
            m = T.RandomPermutation(n, dim=dim)
            torch.random.set_rng_state(g)
        else:
            m = T.ReversePermutation(n, dim=dim)
        return Built(m, shape, dom="any", rng="same", affine=True, tags=["perm"])
    if t in ("naive", "lu", "qr", "svd"):
        c = bool(spec.get("cache", False))
        if t == "naive":
            g = torch.random.get_rng_state()
            torch.manual_seed(spec.get("seed", 0))
            m = T.NaiveLinear(D, orthogonal_initialization=bool(spec.get("orth", True)), using_cache=c)
            torch.random.set_rng_state(g)
        elif t == "lu":
            m = T.LULinear(D, using_cache=c, identity_init=bool(spec.get("identity_init", True)))
        elif t == "qr":
            m = T.QRLinear(D, num_householder=spec.get("nh", 2), using_cache=c)
        else:
            m = T.SVDLinear(D, num_householder=spec.get("nh", 2), using_cache=c, identity_init=bool(spec.get("identity_init", True)))
        return Built(m, shape, affine=True, tags=["linear"])
    if t == "householder":
        return Built(T.HouseholderSequence(D, spec.get("n", 2)), shape, affine=True, tags=["linear"])
    if t == "batchnorm":
        return Built(T.BatchNorm(D, eps=float(spec.get("eps", 1e-5)), momentum=float(spec.get("momentum", 0.1)), affine=bool(spec.get("affine", True))),
                     shape, affine=True,
                     batch_coupled_in_train=True, tags=["norm"])
    if t == "actnorm":
        return Built(T.ActNorm(shape[0]), shape, affine=True, tags=["norm"])
    if t == "squeeze":
        f = spec.get("factor", 2)
        c, h, w = shape
        return Built(T.SqueezeTransform(f), shape, out_shape=[c * f * f, h // f, w // f], dom="any", rng="same", affine=True)
    if t == "conv1x1":
        g = torch.random.get_rng_state()
        torch.manual_seed(spec.get("seed", 0))
        m = T.OneByOneConvolution(shape[0], using_cache=bool(spec.get("cache", False)), identity_init=bool(spec.get("identity_init", True)))
        torch.random.set_rng_state(g)
        return Built(m, shape, affine=True, tags=["linear"])
    if t.startswith("c_"):
        mask = spec["mask"]
        net = _net_fn(spec, shape, ctxk if spec.get("use_ctx", True) else None)
        uses_ctx = ctxk is not None and spec.get("use_ctx", True)
        smooth = spec.get("act", "relu") in SMOOTH_ACTS
        if t in ("c_affine", "c_additive"):
            cls = T.AffineCouplingTransform if t == "c_affine" else T.AdditiveCouplingTransform
            kw = {}
            if spec.get("scale_act") == "general":
                kw["scale_activation"] = T.AffineCouplingTransform.GENERAL_SCALE_ACTIVATION
            if spec.get("uncond") == "lu" and not _img(shape):
                kw["unconditional_transform"] = lambda features: T.LULinear(features, identity_init=False)
            m = cls(mask, net, **kw)
            return Built(m, shape, uses_ctx=uses_ctx, smooth=smooth and spec.get("scale_act") != "general", tags=["coupling"])
        if t == "c_umnn":
            m = T.UMNNCouplingTransform(mask, net, integrand_net_layers=UMNN_LAYERS, cond_size=3, nb_steps=20,
                                        solver=spec.get("solver", "CCParallel"),
                                        apply_unconditional_transform=bool(spec.get("uncond", False)))
            nt = sum(1 for v in mask if v > 0) + (len(mask) if spec.get("uncond") else 0)
            px = (shape[1] * shape[2]) if _img(shape) else 1
            return Built(m, shape, uses_ctx=uses_ctx, smooth=smooth, umnn=True, A_ld=5e-3 * nt * px, A_out=1e-4, A_inv=3e-5,
                         inv_via_forward=True, tags=["coupling", "umnn"])
        fam = FAM_OF[t]
        cls = {"lin": T.PiecewiseLinearCouplingTransform, "quad": T.PiecewiseQuadraticCouplingTransform,
               "cub": T.PiecewiseCubicCouplingTransform, "rq": T.PiecewiseRationalQuadraticCouplingTransform}[fam]
        kw = dict(num_bins=spec.get("bins", 4), tails=spec.get("tails"), tail_bound=float(spec.get("tb", 1.0)),
                  apply_unconditional_transform=bool(spec.get("uncond", False)))
        if _img(shape):
            kw["img_shape"] = list(shape[1:])
        for k in ("min_bin_width", "min_bin_height", "min_derivative"):
            if k in spec and fam != "lin" and not (k == "min_derivative" and fam != "rq"):
                kw[k] = spec[k]
        m = cls(mask, net, **kw)
        dom, rng = _spline_dom(spec)
        return Built(m, shape, dom=dom, rng=rng, uses_ctx=uses_ctx, smooth=smooth and fam != "lin", family=fam,
                     specials=_spline_specials(spec), A_inv=("cubic_w", 2 * float(spec.get("tb", 1.0)) if spec.get("tails") else 1.0) if fam == "cub" else 0.0, tags=["coupling", "spline"])
    if t.startswith("ar_"):
        kw = dict(features=D, hidden_features=spec.get("hidden", 8), context_features=ctxk if spec.get("use_ctx", True) else None,
                  num_blocks=spec.get("blocks", 1), use_residual_blocks=bool(spec.get("res", True)),
                  random_mask=bool(spec.get("randmask", False)), activation=ACTS[spec.get("act", "relu")],
                  dropout_probability=spec.get("dropout", 0.0), use_batch_norm=bool(spec.get("bn", False)))
        uses_ctx = kw["context_features"] is not None
        smooth = spec.get("act", "relu") in SMOOTH_ACTS
        g = torch.random.get_rng_state()
        torch.manual_seed(spec.get("seed", 0))
        try:
            if t == "ar_affine":
                m = T.MaskedAffineAutoregressiveTransform(**kw)
                return Built(m, shape, uses_ctx=uses_ctx, smooth=smooth, tags=["ar"])
            if t == "ar_umnn":
                m = T.MaskedUMNNAutoregressiveTransform(integrand_net_layers=UMNN_LAYERS, cond_size=3, nb_steps=20,
                                                        solver=spec.get("solver", "CCParallel"), **kw)
                return Built(m, shape, uses_ctx=uses_ctx, smooth=smooth, umnn=True, A_ld=5e-3 * D, A_out=1e-4, A_inv=3e-5,
                             inv_via_forward=True, tags=["ar", "umnn"])
            fam = FAM_OF[t]
            if fam == "lin":
                m = T.MaskedPiecewiseLinearAutoregressiveTransform(num_bins=spec.get("bins", 4), **kw)
            elif fam == "cub":
                m = T.MaskedPiecewiseCubicAutoregressiveTransform(num_bins=spec.get("bins", 4), **kw)
            elif fam == "quad":
                mk = {k: spec[k] for k in ("min_bin_width", "min_bin_height") if k in spec}
                m = T.MaskedPiecewiseQuadraticAutoregressiveTransform(num_bins=spec.get("bins", 4), tails=spec.get("tails"),
                                                                      tail_bound=float(spec.get("tb", 1.0)), **mk, **kw)
            else:
                mk = {k: spec[k] for k in ("min_bin_width", "min_bin_height", "min_derivative") if k in spec}
                m = T.MaskedPiecewiseRationalQuadraticAutoregressiveTransform(num_bins=spec.get("bins", 4), tails=spec.get("tails"),
                                                                              tail_bound=float(spec.get("tb", 1.0)), **mk, **kw)
        finally:
            torch.random.set_rng_state(g)
        dom, rng = _spline_dom(spec)
        return Built(m, shape, dom=dom, rng=rng, uses_ctx=uses_ctx, smooth=smooth and fam != "lin", family=fam,
                     specials=_spline_specials(spec), A_inv=("cubic_w", 1.0) if fam == "cub" else 0.0, tags=["ar", "spline"])
    raise ValueError("unknown leaf %r" % t)


def build(spec, shape, ctxk=None):
    """spec -> Built (recursively for wrappers)."""
    from nflows import transforms as T

    t = spec["t"]
    if t == "composite":
        parts, cur = [], list(shape)
        share = spec.get("share")      # [i, j]: position j holds the very module object of position i (a transform applied twice)
        for k_, ps in enumerate(spec["parts"]):
            if share and k_ == share[1] and list(parts[share[0]].in_shape) == list(cur) and list(parts[share[0]].out_shape) == list(cur):
                b = parts[share[0]]
            else:
                b = build(ps, cur, ctxk)
            parts.append(b)
            cur = b.out_shape
        m = T.CompositeTransform([p.module for p in parts])
        dom = next((p.dom for p in parts if p.dom != "any"), "any")
        rng = "same"
        for p in parts:
            if p.rng != "same":
                rng = p.rng
        lead = parts[0] if parts else None
        return Built(m, shape, out_shape=cur, dom=dom, rng=rng, parts=parts,
                     A_out=sum(p.A_out for p in parts), A_ld=sum(p.A_ld for p in parts),
                     A_inv=[p.A_inv for p in parts], smooth=all(p.smooth for p in parts),
                     uses_ctx=any(p.uses_ctx for p in parts), invertible=all(p.invertible for p in parts),
                     inv_via_forward=any(p.inv_via_forward for p in parts), umnn=any(p.umnn for p in parts),
                     knots=lead.knots if lead is not None and lead.elementwise else None,
                     specials=lead.specials if lead is not None else [], affine=all(p.affine for p in parts),
                     elementwise=all(p.elementwise for p in parts), tags=["composite"] + sorted({g for p in parts for g in p.tags}),
                     batch_coupled_in_train=any(p.batch_coupled_in_train for p in parts))
    if t == "inverse":
        b = build(spec["of"], shape, ctxk)
        assert b.out_shape == b.in_shape or True
        m = T.InverseTransform(b.module)
        dom = b.rng if b.rng != "same" else b.dom
        rng = b.dom if b.dom != "any" else "same"
        if b.dom == "any":
            dom = "any"
        # the cubic inverse drops the cubic term below quadratic_threshold (declared approximation): its reported
        # log-det is exact at the returned point, but the returned point is approximate
        extra_ld = 1e-6 * int(np.prod(shape)) if b.family == "cub" else 0.0
        return Built(m, b.out_shape, out_shape=b.in_shape, dom=dom, rng=rng, parts=[b], A_out=b.A_out, A_ld=b.A_ld + extra_ld, A_inv=b.A_inv,
                     smooth=b.smooth, uses_ctx=b.uses_ctx, umnn=b.umnn, affine=b.affine, elementwise=b.elementwise,
                     inv_via_forward=False, tags=["inverse"] + b.tags, batch_coupled_in_train=b.batch_coupled_in_train,
                     specials=[], family=b.family)
    if t == "multiscale":
        sd = spec.get("split_dim", 1)
        m = T.MultiscaleCompositeTransform(len(spec["parts"]), split_dim=sd)
        parts, cur = [], list(shape)
        total = 0
        for i, ps in enumerate(spec["parts"]):
            b = build(ps, cur, ctxk)
            parts.append(b)
            hidden = m.add_transform(b.module, tuple(b.out_shape))
            if hidden is not None:
                total += int(np.prod(b.out_shape)) - int(np.prod(hidden))
                cur = list(hidden)
            else:
                total += int(np.prod(b.out_shape))
        return Built(m, shape, out_shape=[total], parts=parts, A_out=sum(p.A_out for p in parts), A_ld=sum(p.A_ld for p in parts),
                     A_inv=[p.A_inv for p in parts], smooth=all(p.smooth for p in parts), uses_ctx=any(p.uses_ctx for p in parts),
                     umnn=any(p.umnn for p in parts), affine=all(p.affine for p in parts), tags=["multiscale"],
                     specials=parts[0].specials)
    return build_leaf(spec, shape, ctxk)


# ------------------------------------------------------------------------------------------------------------------
# parameter regimes

NONSINGULAR = ("_weight", "q_vectors")


def apply_regime(module, regime, seed):
    """Sets parameters/buffers through named_parameters()/named_buffers() only.  fresh: as constructed."""
    g = torch.Generator().manual_seed(int(seed) % (2 ** 31))
    with torch.no_grad():
        # running statistics of normalisation layers: make eval mode non-degenerate in every regime but 'fresh'
        if regime != "fresh":
            for n, b in module.named_buffers():
                if n.endswith("running_var"):
                    b.copy_(torch.rand(b.shape, generator=g, dtype=b.dtype) * 1.5 + 0.5)
                elif n.endswith("running_mean"):
                    # (+0.37: the input generator of a case may be seeded with the same number; x - running_mean == 0 exactly
                    #  would put every feature on the kink of a following LeakyReLU)
                    b.copy_(torch.randn(b.shape, generator=g, dtype=b.dtype) + 0.37)
                elif n.split(".")[-1] == "temperature" and regime not in ("zero", "equal"):
                    b.copy_(torch.exp(torch.randn(b.shape, generator=g, dtype=b.dtype) * 0.5))
        if regime == "fresh":
            return
        for n, p in module.named_parameters():
            leaf = n.split(".")[-1]
            if leaf == "temperature":  # Sigmoid's learned temperature lives in (0, inf)
                if regime not in ("zero", "equal"):
                    p.copy_(torch.exp(torch.randn(p.shape, generator=g, dtype=p.dtype) * 0.5))
                continue
            if regime == "zero":
                if leaf in NONSINGULAR:
                    continue
                p.zero_()
            elif regime == "equal":
                if leaf in NONSINGULAR:
                    continue
                c = float(torch.randn((), generator=g))
                if leaf == "weight" and p.dim() >= 2:
                    c = c / max(1, int(np.prod(p.shape[1:])))  # keep conditioner outputs at O(1): |unnormalised| <= 8
                p.fill_(c)
            elif regime in ("small", "moderate", "large"):
                s = {"small": 0.3, "moderate": 1.0, "large": 3.0}[regime]
                if leaf == "weight" and p.dim() >= 2:
                    # network weight matrices / conv kernels: scale by fan-in so conditioner outputs stay O(s)
                    s = s * 1.5 / math.sqrt(max(1, int(np.prod(p.shape[1:]))))
                noise = torch.randn(p.shape, generator=g, dtype=p.dtype) * s
                if leaf in NONSINGULAR or regime == "small":
                    p.add_(noise * (0.3 if leaf in NONSINGULAR else 1.0))
                else:
                    p.copy_(noise)
            elif regime in ("nonuniform", "flatbin"):
                noise = torch.randn(p.shape, generator=g, dtype=p.dtype) * 0.5
                if leaf == "weight" and p.dim() >= 2:
                    noise = noise * 3.0 / math.sqrt(max(1, int(np.prod(p.shape[1:]))))
                if leaf in NONSINGULAR:
                    p.add_(noise * 0.3)
                    continue
                p.copy_(noise)
                if p.dim() >= 1 and p.shape[-1] >= 2 and "unnorm" in leaf:
                    idx = torch.randint(0, p.shape[-1], p.shape[:-1] + (1,), generator=g)
                    sign = (torch.rand(p.shape[:-1] + (1,), generator=g) < 0.5).to(p.dtype) * 2 - 1
                    mag = 6.0
                    if regime == "flatbin" and ("widths" in leaf or "heights" in leaf):
                        # the same bin stands out in widths and heights: a wide flat bin, a narrow steep one, or a big / tiny bin
                        g2 = torch.Generator().manual_seed((int(seed) * 7919 + 13) % (2 ** 31))
                        idx = torch.randint(0, p.shape[-1], p.shape[:-1] + (1,), generator=g2)
                        sign = (torch.rand(p.shape[:-1] + (1,), generator=g2) < 0.5).to(p.dtype) * 2 - 1
                        flip = (torch.rand(p.shape[:-1] + (1,), generator=g2) < 0.7).to(p.dtype) * 2 - 1
                        mag = [4.0, 6.0, 9.0][int(torch.randint(0, 3, (1,), generator=g2))]
                        if "heights" in leaf:
                            sign = -sign * flip
                    p.scatter_(-1, idx, mag * sign)
                    if "derivatives" in leaf and p.shape[-1] >= 2:
                        # knot derivatives: a steep knot next to a flat one (the bin between them bends sharply)
                        p.scatter_(-1, (idx + 1) % p.shape[-1], -mag * sign)
            elif regime == "bounded":  # |param| <= 2 (C19 "moderate magnitude")
                if leaf in NONSINGULAR:
                    p.add_(torch.randn(p.shape, generator=g, dtype=p.dtype) * 0.2)
                else:
                    v = (torch.rand(p.shape, generator=g, dtype=p.dtype) * 2 - 1) * float(torch.rand((), generator=g)) * 2
                    if leaf == "weight" and p.dim() >= 2:
                        v = v / math.sqrt(max(1, int(np.prod(p.shape[1:]))))   # network weights: keep conditioner outputs O(1)
                    p.copy_(v)
            else:
                raise ValueError(regime)


REGIMES_ALL = ["fresh", "zero", "equal", "small", "moderate", "nonuniform", "flatbin"]


# ------------------------------------------------------------------------------------------------------------------
# inputs

def _in_dom_random(dom, n_shape, g, scale, dtype):
    if dom in ("R", "any", "same"):
        return torch.randn(n_shape, generator=g, dtype=dtype) * scale
    if dom == "unit":
        return torch.rand(n_shape, generator=g, dtype=dtype)
    if dom == "pos":
        return torch.exp(torch.randn(n_shape, generator=g, dtype=dtype))
    if dom == "sym1":
        return torch.tanh(torch.randn(n_shape, generator=g, dtype=dtype) * 1.5) * (1 - 1e-6)
    if isinstance(dom, (list, tuple)) and dom[0] == "box":
        return dom[1] + (dom[2] - dom[1]) * torch.rand(n_shape, generator=g, dtype=dtype)
    raise ValueError(dom)


def _clip_dom(x, dom):
    if dom == "unit":
        return x.clamp(0, 1)
    if dom == "pos":
        return x.clamp_min(1e-30)
    if dom == "sym1":
        return x.clamp(-1 + 1e-7, 1 - 1e-7)
    if isinstance(dom, (list, tuple)) and dom[0] == "box":
        return x.clamp(dom[1], dom[2])
    return x


def gen_inputs(built, n, seed, special=0.4, scale=1.0, dom=None, ulp=0):
    """n in-domain inputs of the event shape; each element independently is a special point with probability `special`
    (knot of the leading elementwise spline, end-point, tail bound, ...).  Returns (X, is_special mask)."""
    dtype = torch.get_default_dtype()
    dom = dom or built.dom
    g = torch.Generator().manual_seed(int(seed) % (2 ** 31))
    shape = [n] + list(built.in_shape)
    X = _in_dom_random(dom, shape, g, scale, dtype)
    mask = torch.zeros(shape, dtype=torch.bool)
    if special > 0:
        cand = None
        if built.knots is not None:
            try:
                k = built.knots().to(dtype)
                if list(k.shape[:-1]) == list(built.in_shape):
                    idx = torch.randint(0, k.shape[-1], [n] + list(built.in_shape) + [1], generator=g)
                    cand = k[None].expand(n, *k.shape).gather(-1, idx)[..., 0]
            except Exception:
                cand = None
        sp = [s for s in built.specials]
        if sp:
            spt = torch.tensor(sp, dtype=torch.float64).to(dtype)
            pick = spt[torch.randint(0, len(sp), shape, generator=g)]
            if cand is None:
                cand = pick
            else:
                use_k = torch.rand(shape, generator=g) < 0.6
                cand = torch.where(use_k, cand, pick)
        if cand is not None:
            if ulp:
                step = torch.randint(-ulp, ulp + 1, shape, generator=g)
                c2 = cand.clone()
                for _ in range(ulp):
                    c2 = torch.where(step > 0, torch.nextafter(c2, torch.full_like(c2, float("inf"))), c2)
                    c2 = torch.where(step < 0, torch.nextafter(c2, torch.full_like(c2, float("-inf"))), c2)
                    step = step - step.sign()
                cand = c2
                tiny = (cand != 0) & (cand.abs() < 1e-30)   # denormal neighbours of 0 underflow to -0.0 under scaling
                cand = torch.where(tiny, torch.sign(cand) * 1e-30, cand)
            mask = torch.rand(shape, generator=g) < special
            X = torch.where(mask, cand, X)
    X = _clip_dom(X, dom)
    return X, mask


def gen_context(built, ctxk, n, seed, shape=None):
    if ctxk is None:
        return None
    g = torch.Generator().manual_seed((int(seed) + 77) % (2 ** 31))
    dtype = torch.get_default_dtype()
    shape = built.in_shape if shape is None else shape
    if len(shape) == 3:
        return torch.randn([n, ctxk, shape[1], shape[2]], generator=g, dtype=dtype)
    return torch.randn([n, ctxk], generator=g, dtype=dtype)


def resolve_A_inv(built):
    """Absolute allowance (normalised by nothing) for round trips: sums the parts' declared approximation constants."""
    a = built.A_inv
    if isinstance(a, list):
        tot = 0.0
        for p, ai in zip(built.parts, a):
            tot += resolve_A_inv(p)
        return tot
    if isinstance(a, tuple):
        if a[0] == "cubic":
            _, lo, hi, minw = a
            return 1e-7 * max(1.0, hi - lo)  # closed-form root + 2 Newton steps (the 1e-3 quadratic_threshold shortcut is polished away)
        if a[0] == "cubic_w":
            return 1e-7 * max(1.0, a[1])
    if built.parts and len(built.parts) == 1 and "inverse" in built.tags:
        return resolve_A_inv(built.parts[0])
    return float(a)


# ------------------------------------------------------------------------------------------------------------------
# strategies

def _f(lo, hi):
    return st.floats(lo, hi, allow_nan=False, allow_infinity=False, width=32)


@st.composite
def spline_opts(draw, tails_allowed=(None, "linear"), bins_max=6):
    o = {"bins": draw(st.integers(1, bins_max)), "tails": draw(st.sampled_from(list(tails_allowed)))}
    if o["tails"]:
        o["tb"] = draw(st.sampled_from([1.0, 0.5, 2.0, 3.0, 5.0, 0.01, 40.0]))
    if draw(st.integers(0, 3)) == 0:  # non-default, unequal floors (min * bins <= 1 is the constructor-side requirement)
        o["min_bin_width"] = draw(st.sampled_from([1e-3, 0.02, 0.05, 1e-5]))
        o["min_bin_height"] = draw(st.sampled_from([1e-3, 0.03, 0.1, 1e-5]))
        o["min_derivative"] = draw(st.sampled_from([1e-3, 0.05, 1e-5]))
    return o


@st.composite
def net_opts(draw, smooth=None):
    acts = list(SMOOTH_ACTS) if smooth else ["relu", "tanh", "softplus", "identity", "elu"]
    return {"hidden": draw(st.integers(2, 8)), "blocks": draw(st.integers(0, 2)), "act": draw(st.sampled_from(acts)),
            "bn": draw(st.booleans()) if draw(st.integers(0, 3)) == 0 else False}


@st.composite
def mask_for(draw, n):
    vals = draw(st.lists(st.sampled_from([-2.5, -1, 0, 0.3, 1, 7]), min_size=n, max_size=n))
    if not any(v > 0 for v in vals):
        vals[draw(st.integers(0, n - 1))] = 1
    if not any(v <= 0 for v in vals):
        i = draw(st.integers(0, n - 1))
        vals[i] = draw(st.sampled_from([0, -1]))
        if not any(v > 0 for v in vals):
            vals[(i + 1) % n] = 1
    return vals


def _quad_ok(o):
    # one-bin quadratic spline with linear tails has zero interior heights (constructor accepts, calls fail): see findings
    return not (o.get("tails") == "linear" and o["bins"] == 1)


@st.composite
def leaf_spec(draw, shape, cur, ctxk, opts):
    """A leaf transform accepting inputs of kind `cur` ('R','unit','pos','sym1') with event shape `shape`."""
    img = len(shape) == 3
    D = int(np.prod(shape))
    nfeat = shape[0]
    smooth = opts.get("smooth")
    allow_umnn = opts.get("umnn", True)
    names = ["identity", "perm"]
    if cur in ("R",):
        names += ["fn_tails"]
        names += ["paffine", "exp", "tanh", "logtanh", "leakyrelu", "sigmoid", "cauchycdf", "cdf", "cdf", "compositecdf", "actnorm"]
        if not img:
            names += ["naive", "lu", "qr", "svd", "householder", "batchnorm", "ar_affine", "ar_spline", "ar_spline"]
            if allow_umnn and D <= 3:
                names += ["ar_umnn"]
            if ctxk is not None and ctxk in (D, 1) and opts.get("glu", True):     # ctxk == 1 < D: one gate broadcast over all features
                names += ["glu"]
        else:
            names += ["conv1x1"]
            if shape[1] % 2 == 0 and shape[2] % 2 == 0:
                names += ["squeeze"]
        if nfeat >= 2:
            names += ["c_affine", "c_additive", "c_spline", "c_spline"]
            if allow_umnn and D <= 4:
                names += ["c_umnn"]
        if opts.get("inverse", True):
            names += ["inv_R"]
    elif cur == "unit":
        names += ["logit", "cauchycdfinv", "cdf_unit", "cdf_unit", "inv_sigmoid"]
        if not img:
            names += ["ar_spline_unit"]
        if nfeat >= 2:
            names += ["c_spline_unit"]
        names += ["paffine", "exp", "tanh"]
    elif cur == "pos":
        names += ["inv_exp", "paffine", "tanh"]
    elif cur == "sym1":
        names += ["inv_tanh", "paffine", "exp"]
    if opts.get("only"):
        names = [n for n in names if n in opts["only"]] or ["identity"]
    if opts.get("exclude"):
        names = [n for n in names if n not in opts["exclude"]] or ["identity"]
    name = draw(st.sampled_from(names))
    seed = draw(st.integers(0, 10 ** 6))
    if name == "identity":
        return {"t": "identity"}
    if name == "perm":
        dim = draw(st.integers(1, len(shape)))
        n = shape[dim - 1]
        kind = draw(st.sampled_from(["perm", "randperm", "revperm"]))
        if kind == "perm":
            return {"t": "perm", "perm": draw(st.permutations(list(range(n)))), "dim": dim}
        return {"t": kind, "dim": dim, "seed": seed}
    if name == "paffine":
        if img and draw(st.booleans()):
            # scale/shift of any shape broadcastable to the event shape, incl. internal singleton dims like (C,1,1)
            bshape = [d if draw(st.booleans()) else 1 for d in shape]
            bshape = bshape[draw(st.integers(0, 2)):] if all(x == 1 for x in bshape[:1]) else bshape
            nel = int(np.prod(bshape))
            if nel == 1:
                bshape, nel = list(shape), int(np.prod(shape))
            sc = draw(st.lists(st.sampled_from([0.5, 2.0, -1.5, 3.0, 0.25, -0.7]), min_size=nel, max_size=nel))
            sh = draw(st.lists(st.sampled_from([0.0, 1.0, -2.0, 0.3]), min_size=nel, max_size=nel))
            return {"t": "paffine", "shift": np.asarray(sh).reshape(bshape).tolist(), "scale": np.asarray(sc).reshape(bshape).tolist()}
        if draw(st.booleans()):
            last = shape[-1]
            sc = draw(st.lists(st.sampled_from([0.5, 2.0, -1.5, 3.0, 0.25, -0.7]), min_size=last, max_size=last))
            sh = draw(st.lists(st.sampled_from([0.0, 1.0, -2.0, 0.3]), min_size=last, max_size=last))
            return {"t": "paffine", "shift": sh, "scale": sc}
        return {"t": "paffine", "shift": draw(st.sampled_from([0.0, 1.5, -0.3])), "scale": draw(st.sampled_from([2.0, -0.5, 1.0, 0.1]))}
    if name in ("exp", "tanh", "cauchycdf", "logit", "cauchycdfinv"):
        d = {"t": name}
        if name == "logit":
            d["temp"] = draw(st.sampled_from([1.0, 0.5, 2.0]))
        return d
    if name == "logtanh":
        return {"t": "logtanh", "cut": draw(st.sampled_from([1.0, 0.5, 2.0, 3.0]))}
    if name == "leakyrelu":
        return {"t": "leakyrelu", "slope": draw(st.sampled_from([1e-2, 0.2, 0.5, 2.0]))}
    if name == "sigmoid":
        return {"t": "sigmoid", "temp": draw(st.sampled_from([1.0, 0.5, 2.0])), "learn": draw(st.booleans())}
    if name in ("cdf", "cdf_unit"):
        fam = draw(st.sampled_from(["cdf_lin", "cdf_quad", "cdf_cub", "cdf_rq"]))
        o = draw(spline_opts(tails_allowed=("linear",) if name == "cdf" else (None,)))
        if fam == "cdf_quad" and not _quad_ok(o):
            o["bins"] = 2
        d = {"t": fam}
        d.update(o)
        if fam == "cdf_rq":
            d["identity_init"] = draw(st.booleans())
        return d
    if name == "fn_tails":
        fam = draw(st.sampled_from(["fn_lin", "fn_quad", "fn_cub", "fn_rq"]))
        o = draw(spline_opts(tails_allowed=("linear",)))
        if fam == "fn_quad" and not _quad_ok(o):
            o["bins"] = 2
        extra = {k: o[k] for k in ("min_bin_width", "min_bin_height", "min_derivative") if k in o
                 and fam != "fn_lin" and not (k == "min_derivative" and fam != "fn_rq")}
        return {"t": fam, "bins": o["bins"], "tb": o["tb"], "extra": extra}
    if name == "compositecdf":
        fam = draw(st.sampled_from(["cdf_lin", "cdf_quad", "cdf_cub", "cdf_rq"]))
        o = draw(spline_opts(tails_allowed=(None,)))
        c = {"t": fam}
        c.update(o)
        return {"t": "compositecdf", "squash": {"t": "sigmoid", "temp": draw(st.sampled_from([1.0, 0.7]))}, "cdf": c}
    if name == "actnorm":
        return {"t": "actnorm"}
    if name == "batchnorm":
        return {"t": "batchnorm", "eps": draw(st.sampled_from([1e-5, 1e-3])), "momentum": draw(st.sampled_from([0.1, 0.5])),
                "affine": draw(st.sampled_from([True, True, False]))}   # (a constructor flag the class accepts; the map it computes defines the log-det)
    if name in ("naive", "lu", "qr", "svd"):
        d = {"t": name, "cache": draw(st.booleans()), "seed": seed}
        if name == "naive":
            d["orth"] = draw(st.booleans())
        if name in ("lu", "svd"):
            d["identity_init"] = draw(st.booleans())
        if name == "qr":
            d["nh"] = draw(st.integers(1, D + 2))
        if name == "svd":
            d["nh"] = 2 * draw(st.integers(1, max(1, (D + 2) // 2)))
        return d
    if name == "householder":
        return {"t": "householder", "n": draw(st.integers(1, D + 2))}
    if name == "glu":
        return {"t": "glu"}
    if name == "squeeze":
        return {"t": "squeeze", "factor": 2}
    if name == "conv1x1":
        return {"t": "conv1x1", "cache": draw(st.booleans()), "identity_init": draw(st.booleans()), "seed": seed}
    if name in ("c_affine", "c_additive", "c_umnn", "c_spline", "c_spline_unit"):
        d = {"mask": draw(mask_for(nfeat))}
        d.update(draw(net_opts(smooth)))
        d["use_ctx"] = True
        if name == "c_affine":
            d["t"] = "c_affine"
            d["scale_act"] = draw(st.sampled_from(["default", "general"]))
            if not img:
                d["uncond"] = draw(st.sampled_from([None, "lu"]))
        elif name == "c_additive":
            d["t"] = "c_additive"
        elif name == "c_umnn":
            d["t"] = "c_umnn"
            d["uncond"] = False  # apply_unconditional_transform=True always raises: known finding, excluded by construction
            d["solver"] = draw(st.sampled_from(["CCParallel", "CC"]))
            d["hidden"], d["blocks"] = min(d["hidden"], 4), min(d["blocks"], 1)
        else:
            fam = draw(st.sampled_from(["c_lin", "c_quad", "c_cub", "c_rq"]))
            o = draw(spline_opts(tails_allowed=("linear",) if name == "c_spline" else (None,), bins_max=5))
            if fam == "c_quad" and not _quad_ok(o):
                o["bins"] = 2
            d["t"] = fam
            d.update(o)
            d["uncond"] = draw(st.booleans())
        return d
    if name in ("ar_affine", "ar_umnn", "ar_spline", "ar_spline_unit"):
        d = dict(draw(net_opts(smooth)))
        d["res"] = draw(st.booleans())
        d["randmask"] = (not d["res"]) and draw(st.booleans())
        d["use_ctx"] = True
        d["seed"] = seed
        d["hidden"] = max(d["hidden"], D)
        if name == "ar_affine":
            d["t"] = "ar_affine"
        elif name == "ar_umnn":
            d["t"] = "ar_umnn"
            d["solver"] = draw(st.sampled_from(["CCParallel", "CC"]))
            d["hidden"], d["blocks"] = min(d["hidden"], 4), min(d["blocks"], 1)
            d["hidden"] = max(d["hidden"], D)
        elif name == "ar_spline":
            fam = draw(st.sampled_from(["ar_quad", "ar_rq"]))
            o = draw(spline_opts(tails_allowed=("linear",), bins_max=5))
            if fam == "ar_quad" and not _quad_ok(o):
                o["bins"] = 2
            d["t"] = fam
            d.update(o)
        else:
            fam = draw(st.sampled_from(["ar_lin", "ar_quad", "ar_cub", "ar_rq"]))
            o = draw(spline_opts(tails_allowed=(None,), bins_max=5))
            d["t"] = fam
            d.update(o)
        return d
    if name == "inv_R":
        inner_opts = dict(opts)
        inner_opts["inverse"] = False
        inner_opts["only"] = ["paffine", "logtanh", "leakyrelu", "cdf", "compositecdf", "actnorm", "naive", "lu", "qr", "svd",
                              "householder", "batchnorm", "ar_affine", "ar_spline", "c_affine", "c_additive", "c_spline", "conv1x1"]
        inner_opts.pop("exclude", None)
        if opts.get("exclude"):
            inner_opts["only"] = [n for n in inner_opts["only"] if n not in opts["exclude"]]
        return {"t": "inverse", "of": draw(leaf_spec(shape, "R", ctxk, inner_opts))}
    if name == "inv_sigmoid":
        return {"t": "inverse", "of": {"t": "sigmoid", "temp": draw(st.sampled_from([1.0, 2.0])), "learn": draw(st.booleans())}}
    if name == "inv_exp":
        return {"t": "inverse", "of": {"t": "exp"}}
    if name == "inv_tanh":
        return {"t": "inverse", "of": {"t": "tanh"}}
    raise AssertionError(name)


@st.composite
def boxes(draw):
    """(left, right, bottom, top) with left<right, bottom<top: widths 1e-2..1e3, offsets up to +-100."""
    def interval():
        w = draw(st.sampled_from([1.0, 1.0, 2.0, 0.5, 4.0, 1e-2, 10.0, 1e3, 3.0]))
        lo = draw(st.sampled_from([0.0, 0.0, -1.0, -0.5, 2.0, -100.0, 37.5, -3.0]))
        return float(lo), float(lo + w)
    l, r = interval()
    if draw(st.booleans()):
        return [l, r, l, r]
    b, t = interval()
    return [l, r, b, t]


@st.composite
def fn_box_spec(draw):
    fam = draw(st.sampled_from(["fn_lin", "fn_quad", "fn_cub", "fn_rq"]))
    o = draw(spline_opts(tails_allowed=(None,)))
    box = draw(boxes())
    extra = {k: o[k] for k in ("min_bin_width", "min_bin_height", "min_derivative") if k in o
             and fam != "fn_lin" and not (k == "min_derivative" and fam != "fn_rq")}
    return {"t": fam, "bins": o["bins"], "box": box, "extra": extra}, ["box", box[0], box[1]]


def _rng_after(spec, cur):
    t = spec["t"]
    if t in ("identity", "perm", "randperm", "revperm", "squeeze"):
        return cur
    if t in ("exp", "tanh"):
        return "R"  # numerically the image can touch the closed boundary (0, inf, +-1): never feed it to log/atanh
    if t in ("sigmoid", "cauchycdf"):
        return "unit"
    if t in ("logit", "cauchycdfinv"):
        return "R"
    if t == "inverse":
        o = spec["of"]["t"]
        if o in ("sigmoid", "exp", "tanh"):
            return "R"
        if o.startswith(("cdf_", "c_", "ar_")) and not spec["of"].get("tails") and o not in ("c_affine", "c_additive", "c_umnn", "ar_affine", "ar_umnn"):
            return "unit"
        return "R"
    if t.startswith(("cdf_", "c_", "ar_")) and t not in ("c_affine", "c_additive", "c_umnn", "ar_affine", "ar_umnn"):
        return "R" if spec.get("tails") else "unit"
    return "R"


def _shape_after(spec, shape):
    if spec["t"] == "squeeze":
        c, h, w = shape
        f = spec.get("factor", 2)
        return [c * f * f, h // f, w // f]
    return shape


@st.composite
def shapes(draw, flat_max=6, img=True):
    if img and draw(st.integers(0, 3)) == 0:
        return draw(st.sampled_from([[2, 2, 2], [2, 1, 3], [3, 2, 2], [1, 2, 2], [2, 2, 4], [2, 3, 1], [4, 1, 1]]))
    return [draw(st.integers(1, flat_max))]


@st.composite
def transform_case(draw, opts=None):
    """{'shape','dom','ctx','spec','init'}: a single leaf (60 %) or a composite of 2-4 leaves with tracked ranges."""
    opts = dict(opts or {})
    shape = draw(shapes(opts.get("flat_max", 6), opts.get("img", True)))
    img = len(shape) == 3
    ctxk = None
    if opts.get("ctx", True) and draw(st.integers(0, 2)) == 0:
        ctxk = draw(st.sampled_from([1, 2, 3] + ([shape[0]] if not img else [])))
    dom = draw(st.sampled_from(opts.get("doms", ["R", "R", "R", "R", "R", "unit", "unit", "pos", "sym1"])))
    nparts = draw(st.sampled_from(opts.get("nparts", [1, 1, 1, 2, 3, 4])))
    parts, cur, cshape = [], dom, shape
    ctx_ok = ctxk
    for _ in range(nparts):
        o = dict(opts)
        if len(cshape) == 3 and cshape != shape and ctxk is not None:
            # image context has the spatial size of the input: couplings after a squeeze cannot consume it
            o["exclude"] = list(o.get("exclude", [])) + ["c_affine", "c_additive", "c_umnn", "c_spline", "c_spline_unit"]
        if len(cshape) == 3 and ctxk is not None:
            o["exclude"] = list(o.get("exclude", [])) + ["squeeze"]
        p = draw(leaf_spec(cshape, cur, ctx_ok, o))
        parts.append(p)
        cur = _rng_after(p, cur)
        cshape = _shape_after(p, cshape)
    spec = parts[0] if nparts == 1 else {"t": "composite", "parts": parts}
    if opts.get("fn_box", True) and draw(st.integers(0, 7)) == 0:
        spec, dom = draw(fn_box_spec())
        ctxk = None
    elif opts.get("multiscale", True) and dom == "R" and shape[0] >= 2 and draw(st.integers(0, 9)) == 0:
        # multiscale composite over R->R leaves: stage k acts on what is left after k splits along dim 1
        stages, cur, mparts = draw(st.integers(1, 3)), list(shape), []
        o = dict(opts)
        o["exclude"] = list(o.get("exclude", [])) + ["exp", "tanh", "sigmoid", "cauchycdf", "squeeze", "glu", "inv_R", "batchnorm",
                                                      "c_umnn", "ar_umnn"] + (["c_affine", "c_additive", "c_spline"] if (img and ctxk is not None) else [])
        for _ in range(stages):
            if cur[0] < 2:
                break
            mparts.append(draw(leaf_spec(cur, "R", ctxk, o)))
            cur = [cur[0] // 2] + cur[1:]
        if mparts:
            spec = {"t": "multiscale", "split_dim": 1, "parts": mparts}
    regime = draw(st.sampled_from(opts.get("regimes", REGIMES_ALL)))
    return {"shape": shape, "dom": dom, "ctx": ctxk, "spec": spec,
            "init": {"regime": regime, "seed": draw(st.integers(0, 10 ** 6)), "reload": draw(st.integers(0, 3)) == 0}}


def instantiate(case):
    """Builds the transform of a transform_case dict in the current default dtype, applies the regime, eval mode."""
    b = build(case["spec"], case["shape"], case.get("ctx"))
    regime = case["init"]["regime"]
    if b.umnn and regime not in ("fresh", "small", "zero"):
        regime = "small"  # the integrand's ELU+1 underflows to 0 (log-det -inf) under O(1) random weights: not "moderate" for UMNN
    apply_regime(b.module, regime, case["init"]["seed"])
    if case["init"].get("reload"):
        # history: the object under test is a differently seeded fresh instance that received the state through
        # state_dict()/load_state_dict() (random permutations, masks, running statistics must travel and be used)
        donor = b
        b = build(reseed(case["spec"], 7919), case["shape"], case.get("ctx"))
        b.module.load_state_dict(donor.module.state_dict())
    b.module.eval()
    watch_conditioners(b)
    return b


def reseed(spec, delta):
    if isinstance(spec, dict):
        return {k: ((v + delta) if k == "seed" and isinstance(v, int) else reseed(v, delta)) for k, v in spec.items()}
    if isinstance(spec, list):
        return [reseed(v, delta) for v in spec]
    return spec


def watch_conditioners(b):
    """Records the largest |unnormalised spline/affine parameter| any conditioner network produced (b.param_max[0]):
    the checks' parameter domain is |unnormalised| <= ~10; tail inputs of size 40-120 fed to a conditioner can exceed it."""
    b.param_max = [0.0]

    def hook(_m, _inp, out):
        try:
            v = float(out.detach().abs().max())
            if v == v and v > b.param_max[0]:
                b.param_max[0] = v
        except Exception:
            pass

    for name, mod in b.module.named_modules():
        leaf = name.split(".")[-1]
        if leaf in ("transform_net", "autoregressive_net"):
            mod.register_forward_hook(hook)
    return b


SAT_R = ("exp", "tanh", "sigmoid", "cauchycdf", "logtanh", "compositecdf", "ar_umnn", "c_umnn")
SAT_UNIT = ("logit", "cauchycdfinv")


def _sat_kind(spec):
    t = spec["t"]
    if t in SAT_R:
        return "R"
    if t in SAT_UNIT:
        return "unit"
    if t == "inverse":
        o = spec["of"]["t"]
        if o in ("sigmoid", "cauchycdf"):
            return "unit"
        if o == "tanh":
            return "sym"
        if o == "exp":
            return "pos"
        if o in ("logtanh", "compositecdf"):
            return "R"
    return None


COMPOSITECDF_MARGIN = [1e-4]      # C19 raises it to 1e-2: in single precision 1 - u keeps only u32 / (1 - u) relative accuracy


def _compositecdf_ok(module, z, inverse=False):
    """CompositeCDFTransform = [squash, cdf, squash^-1]; the final logit clamps at eps=1e-6, so the value entering it
    must stay away from 0/1 (otherwise the declared clamp, not the spline, decides the result)."""
    try:
        sq, cdf = module._transforms[0], module._transforms[1]
        u, _ = sq(z)
        v, _ = cdf.inverse(u) if inverse else cdf(u)
        mg = COMPOSITECDF_MARGIN[0]
        return float(v.min()) >= mg and float(v.max()) <= 1 - mg and float(u.min()) >= mg and float(u.max()) <= 1 - mg
    except Exception:
        return True


def _sat_ok(kind, z, bound):
    if kind is None:
        return True
    if not bool(torch.isfinite(z).all()):
        return False
    if kind == "R":
        return float(z.abs().max()) <= bound
    if kind == "unit":
        return float(z.min()) >= 1e-4 and float(z.max()) <= 1 - 1e-4
    if kind == "sym":
        return float(z.abs().max()) <= 1 - 1e-6
    if kind == "pos":
        return float(z.min()) >= 1e-6 and float(z.max()) <= 1e6
    return True


def chain_moderate(b, X, ctx, spec=None, bound=6.0):
    """True if no saturating part (exp, tanh, sigmoid, logit, tan ...) of the (composite) transform receives inputs in
    its saturation region.  Only then is a non-finite or inaccurate result attributable to the library rather than to
    floating-point overflow/cancellation that the float64 autograd oracle suffers from as well."""
    with torch.no_grad():
        if not bool(torch.isfinite(X).all()):
            return False
        if spec is None:
            return True
        if spec["t"] == "composite":
            z = X
            for p, ps in zip(b.parts, spec["parts"]):
                zs = z
                if ps["t"] == "sigmoid":
                    try:
                        zs = z * float(p.module.temperature)      # saturation is a matter of temperature * x
                    except Exception:
                        pass
                if not _sat_ok(_sat_kind(ps), zs, bound):
                    return False
                if ps["t"] == "compositecdf" and not _compositecdf_ok(p.module, z):
                    return False
                if ps["t"] == "inverse" and ps["of"]["t"] == "compositecdf" and not _compositecdf_ok(p.module._transform, z, True):
                    return False
                try:
                    z, _ = p.module(z, ctx)
                except Exception:
                    return True  # let the caller see the exception on the real call
                if not bool(torch.isfinite(z).all()):
                    return False
            return True
        if spec["t"] == "multiscale":
            # stage k sees what stage k-1 handed on: the trailing half (rounded down) along split_dim
            if not b.parts:
                return True
            sd = spec.get("split_dim", 1)
            z = X
            for k, (p, ps) in enumerate(zip(b.parts, spec["parts"])):
                if not chain_moderate(p, z, ctx, ps, bound):
                    return False
                if k == len(b.parts) - 1:
                    break
                try:
                    z, _ = p.module(z, ctx)
                    size = z.shape[sd]
                    z = z.narrow(sd, (size + 1) // 2, size - (size + 1) // 2)
                except Exception:
                    return True
                if not bool(torch.isfinite(z).all()):
                    return False
            return True
        if spec["t"] == "compositecdf" and not _compositecdf_ok(b.module, X):
            return False
        if spec["t"] == "inverse" and spec["of"]["t"] == "compositecdf" and not _compositecdf_ok(b.module._transform, X, True):
            return False
        if spec["t"] == "sigmoid":
            try:
                return _sat_ok("R", X * float(b.module.temperature), bound)
            except Exception:
                pass
        return _sat_ok(_sat_kind(spec), X, bound)


def one_sided_logdet_interval(fo, X, i, elementwise, h=1e-7):
    """Interval [lo, hi] spanned by the log|det| of the left and right one-sided finite-difference Jacobians of row i
    (Richardson-extrapolated from steps h and h/2).  A side whose perturbed point leaves the transform's domain (box
    end-point) is dropped.  Returns (None, None) when the two step sizes disagree (a further kink within h, or
    curvature too strong for finite differences): the caller counts that as inconclusive."""
    from vf.oracles import slogdet64

    xi = X[i].detach().reshape(-1)
    n = xi.numel()

    def jac_side(sgn, hh):
        cols = []
        for j in range(n):
            step = sgn * hh * (1.0 + abs(float(xi[j])))
            xp = xi.clone()
            xp[j] += step
            Xp = torch.cat([X[:i], xp.reshape(X[i].shape)[None], X[i + 1:]], 0)
            cols.append((fo(Xp)[i].reshape(-1) - base) / step)
        return torch.stack(cols, 1)

    sides = []
    with torch.no_grad():
        base = fo(X)[i].reshape(-1)
        if elementwise:
            # per element: whichever one-sided derivatives exist; hull of all combinations = [sum of mins, sum of maxes]
            lo_t, hi_t = 0.0, 0.0
            for j in range(n):
                cand = []
                for sgn in (-1.0, 1.0):
                    ds = []
                    try:
                        for hh in (h, h / 2):
                            step = sgn * hh * (1.0 + abs(float(xi[j])))
                            xp = xi.clone()
                            xp[j] += step
                            Xp = torch.cat([X[:i], xp.reshape(X[i].shape)[None], X[i + 1:]], 0)
                            ds.append(float((fo(Xp)[i].reshape(-1)[j] - base[j]) / step))
                    except Exception as e:
                        if type(e).__name__ != "InputOutsideDomain":
                            raise
                        continue
                    d = 2 * ds[1] - ds[0]
                    if abs(ds[1] - ds[0]) > 1e-4 * (abs(d) + 1e-300) or not d > 0 and not d < 0:
                        return None, None
                    # rounding of the two outputs being subtracted: 5 ulp(|f|) / (|f'| h) relative, after the extrapolation
                    noise = 5 * 2.3e-16 * (1.0 + abs(float(base[j]))) / (abs(d) * h / 2 * (1.0 + abs(float(xi[j]))))
                    if noise > 1e-2:
                        return None, None      # slope too small against the size of the outputs: differences cannot resolve it
                    cand.append((math.log(abs(d)), noise))
                if not cand:
                    return None, None
                lo_t += min(c_ - n_ for c_, n_ in cand)
                hi_t += max(c_ + n_ for c_, n_ in cand)
            return lo_t, hi_t
        for sgn in (-1.0, 1.0):
            try:
                J1, J2 = jac_side(sgn, h), jac_side(sgn, h / 2)
            except Exception as e:
                if type(e).__name__ != "InputOutsideDomain":
                    raise
                continue
            J = 2 * J2 - J1
            if float((J2 - J1).abs().max()) > 1e-4 * (float(J.abs().max()) + 1e-300):
                return None, None
            sides.append(J)
    if not sides:
        return None, None
    if elementwise:
        lds = torch.stack([torch.log(torch.diagonal(J).abs()) for J in sides])
        if not bool(torch.isfinite(lds).all()):
            return None, None
        return float(lds.min(0).values.sum()), float(lds.max(0).values.sum())
    vals = [slogdet64(J)[1] for J in sides]
    if not all(np.isfinite(v) for v in vals):
        return None, None
    return min(vals), max(vals)


def robust_jac(fo, X, i, h=1e-7):
    """Row Jacobian for conditioning estimates: autograd; if that is singular or non-finite (torch.clamp has zero gradient
    exactly at its bounds, i.e. at box end-points) fall back to one-sided finite differences stepping into the domain."""
    from vf.oracles import jac_in_batch

    J = jac_in_batch(fo, X, i)
    ok = bool(torch.isfinite(J).all())
    if ok:
        try:
            ok = float(torch.linalg.svdvals(J).min()) > 1e-12 * float(J.abs().max() + 1e-300)
        except Exception:
            ok = False
    if ok:
        return J
    xi = X[i].detach().reshape(-1)
    n = xi.numel()
    cols = []
    with torch.no_grad():
        base = fo(X)[i].reshape(-1)
        for j in range(n):
            col = None
            for sgn in (1.0, -1.0):
                step = sgn * h * (1.0 + abs(float(xi[j])))
                xp = xi.clone()
                xp[j] += step
                Xp = torch.cat([X[:i], xp.reshape(X[i].shape)[None], X[i + 1:]], 0)
                try:
                    col = (fo(Xp)[i].reshape(-1) - base) / step
                    break
                except Exception as e:
                    if type(e).__name__ != "InputOutsideDomain":
                        raise
            if col is None:
                return J
            cols.append(col)
    return torch.stack(cols, 1)


def chain_moderate_inverse(b, Y, ctx, spec, bound=6.0):
    """Saturation guard for the inverse direction: walks the parts in reverse through their public inverse."""
    with torch.no_grad():
        if not bool(torch.isfinite(Y).all()):
            return False
        if spec["t"] != "composite":
            if spec["t"] == "compositecdf" and not _compositecdf_ok(b.module, Y, True):
                return False
            if spec["t"] == "inverse" and spec["of"]["t"] == "compositecdf" and not _compositecdf_ok(b.module._transform, Y):
                return False
            return _sat_ok(_sat_kind({"t": "inverse", "of": spec}) if spec["t"] != "inverse" else _sat_kind(spec["of"]), Y, bound)
        z = Y
        for p, ps in zip(b.parts[::-1], spec["parts"][::-1]):
            kind = _sat_kind({"t": "inverse", "of": ps}) if ps["t"] != "inverse" else _sat_kind(ps["of"])
            if ps["t"] in ("sigmoid", "cauchycdf"):
                kind = "unit"
            if ps["t"] in ("logit", "cauchycdfinv"):
                kind = "R"
            if not _sat_ok(kind, z, bound):
                return False
            if ps["t"] == "compositecdf" and not _compositecdf_ok(p.module, z, True):
                return False
            if ps["t"] == "inverse" and ps["of"]["t"] == "compositecdf" and not _compositecdf_ok(p.module._transform, z):
                return False
            try:
                z, _ = p.module.inverse(z, ctx)
            except Exception:
                return True
            if not bool(torch.isfinite(z).all()):
                return False
        return True


def one_sided_jacs(fo, X, i, h=1e-7):
    """Left and right one-sided finite-difference Jacobians of row i (those whose perturbed points stay in the domain)."""
    xi = X[i].detach().reshape(-1)
    n = xi.numel()
    out = []
    with torch.no_grad():
        base = fo(X)[i].reshape(-1)
        for sgn in (-1.0, 1.0):
            cols = []
            try:
                for j in range(n):
                    step = sgn * h * (1.0 + abs(float(xi[j])))
                    xp = xi.clone()
                    xp[j] += step
                    Xp = torch.cat([X[:i], xp.reshape(X[i].shape)[None], X[i + 1:]], 0)
                    cols.append((fo(Xp)[i].reshape(-1) - base) / step)
            except Exception as e:
                if type(e).__name__ != "InputOutsideDomain":
                    raise
                continue
            out.append(torch.stack(cols, 1))
    return out
