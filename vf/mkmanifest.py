"""Regenerates /verif/MANIFEST.json from the table below (python -m vf.mkmanifest)."""
import json
import os

ROOT = os.path.dirname(os.path.dirname(os.path.abspath(__file__)))

# id -> (technique, level text, level note, design ref)
CHECKS = {
    "C01": ("Hypothesis-generated transforms/parameters/inputs (special points constructed) vs slogdet of autograd and "
            "finite-difference Jacobians in float64; one-sided-derivative hull at kinks",
            "Exploration: generated zoo transforms (all classes, composites, Inverse wrappers, images, context, cache priming) "
            "x parameter regimes x in-domain inputs with knots/end-points/tail bounds constructed; forward log-abs-det compared "
            "per row with the log|det| of the autograd Jacobian taken inside the batch, finite differences as second opinion.",
            "Trusts torch autograd (cross-checked by FD on smooth maps); |unnormalised parameter| kept to O(8); rows whose "
            "oracle is ill-conditioned or saturating (exp/tanh/sigmoid overflow) are counted inconclusive, not passed.",
            "DESIGN.md 3/C01"),
    "C02": ("Hypothesis-generated invertible transforms x regimes x special-point inputs; round trips in both orders against a "
            "tolerance derived from the measured Jacobian conditioning plus declared approximation constants",
            "Exploration: generated invertible zoo transforms (incl. reload-into-differently-seeded-instance histories) x "
            "regimes (zero/equal/nonuniform weighted up) x special inputs; inverse(forward(x)) = x, forward(inverse(y)) = y for y "
            "drawn in the range, inverse log-det = -forward log-det at the returned point, all finite.",
            "Tolerance 1e-8*(|y|*||J^-1|| + |x|) + A*||J^-1|| with J from float64 autograd / one-sided FD at special points; rows "
            "with ||J^-1|| > 1e6, saturating chains, or conditioner outputs beyond |10| are inconclusive (counted).",
            "DESIGN.md 3/C02"),
    "C03": ("Hypothesis-generated flows over normal bases; adaptive Gauss-Legendre quadrature of exp(log_prob) on knot-aligned "
            "panels (1-D all regimes, 2-D bounded distortion, iterated) with error estimate; closed-form differential in <= 6 D",
            "Exploration: total mass of 1-D flows over two independent integration boxes (inverse image of the base's 9-sigma box "
            "and a fixed [-60, 60]) and of 2-D flows within an evaluation budget; log_prob = my closed-form base log-density at "
            "T(x) + T's log-abs-det for compositions with context in up to 6 dimensions.",
            "Unresolved integrals (err > 1e-5, budget) are inconclusive; CompositeCDF's declared logit clamp is treated as onto "
            "only when it feeds the base directly; Sigmoid-temperature bookkeeping errors cancel inside CompositeCDF and are "
            "caught by C01 instead.", "DESIGN.md 3/C03"),
    "C04": ("Hypothesis-generated flows (zoo transforms, conditional/mixture bases, embedding nets, MAF, RealNVP) x contexts x "
            "num_samples; differential pairing of sample_and_log_prob with log_prob per draw, row-identifying base, KS tests "
            "against cumulative quadrature of the density and against the base distribution",
            "Exploration: every draw returned by sample_and_log_prob carries exactly the log_prob of that sample under its own "
            "context row; block i of sample(n, context) comes from context row i; 1-D flow samples follow the integrated density; "
            "transform_to_noise(sample) follows the base.",
            "Transforms with declared non-bijective clamps (Sigmoid.eps via CompositeCDF) and cubic inverse approximations are "
            "excluded from the pairing test; KS power ~1 % at n=20000; conditional MADEMoG sampling is covered by C05.",
            "DESIGN.md 3/C04"),
    "C05": ("Hypothesis-generated distributions/parameters/event shapes/context rows; exact summation (Bernoulli), adaptive "
            "Gauss-Legendre quadrature with knot-aligned panels in 1-2 D, closed-form differentials, KS tests of samples",
            "Exploration: every density-returning class: total mass 1 (exact sum / quadrature with an error estimate / volume "
            "identity / tensor rule for the Lotka-Volterra box), samples follow the density per context row (KS at p=1e-9, "
            "binomial bands), finite density at every sample, mean() shape and value or NoMeanException.",
            "Quadrature resolves <= 2 dimensions; larger event shapes only against the closed-form normal density; statistical "
            "power ~1 % in KS distance at n=20000.", "DESIGN.md 3/C05"),
    "C06": ("exhaustive enumeration of MADE architectures (both copies), each decided for all weights by a sign argument "
            "(identity activation + strictly positive weights => Jacobian entry > 0 iff an unmasked path exists); Hypothesis for "
            "larger sizes, bit-identity under input perturbation with signed weights",
            "Exploration, exhaustive over the named architecture grid: 12 600 networks (quick) from both MADE copies, each checked "
            "for exact zeros of d out_block(i) / d in_{>=i} with all weights (masked positions included) positive; generated "
            "larger networks with signed weights, relu/tanh, batch-norm in train mode, after assignment / load_state_dict / an "
            "SGD step; triangular Jacobians of masked autoregressive transforms; MoG factorisation.",
            "'For all weights' rests on the premise that the forward pass is masked-linear layers, elementwise maps, batch-norm "
            "and sums; that premise is itself only tested (oracle B).", "DESIGN.md 3/C06"),
    "C07": ("exhaustive enumeration of masks (<= 4 features, values {-1,0,0.3,1}) x 7 coupling classes x 2-D/4-D x direction "
            "x mask container types; Hypothesis for larger masks/context/unconditional transforms; bitwise identity, metamorphic "
            "single-input moves, Jacobian sparsity",
            "Exploration, exhaustive over masks of <= 4 features: identity features bit-for-bit, moving one transformed input "
            "changes only its own output (monotonically), Jacobian block structure with exact zeros across channels and pixels, "
            "index bookkeeping consistent with mask > 0.",
            "Other outputs compared to 1e-12 (not bitwise) because the tail scatter changes the sub-batch size; non-finite "
            "autograd Jacobians are left to C16.", "DESIGN.md 3/C07"),
    "C08": ("generated wrapper programs (Composite/Inverse/Multiscale trees, with context) vs a reference interpreter over the "
            "leaves; exhaustive multiscale routing grid decided by power-of-two tagging in exact integer arithmetic",
            "Exploration, exhaustive over 1-4 stages x split_dim 1-3 x event shapes of 1-3 dims up to size 6: every output value "
            "identifies its input coordinate and the stages it passed (stage k multiplies by 2^(2^k)), compared with a numpy model "
            "of the docstring; generated nestings compared with hand-chained leaves in both directions; InverseTransform bitwise swap.",
            "Reference interpreter and numpy routing model are written from the docstrings; exact arithmetic below 2^53.",
            "DESIGN.md 3/C08"),
    "C09": ("Hypothesis-generated spline parameters/boxes/tail bounds evaluated on sorted grids of constructed knots, ulp "
            "neighbours, end-points and tail junction; order/range/end-point/continuity/identity-tail invariants",
            "Exploration: every spline family x 1-8 bins x generated boxes/tail bounds x parameter regimes (incl. exactly zero and "
            "+-8 logits) x float32/float64, ~600 constructed inputs per case in both directions; checks end-points, exact range, "
            "monotonicity along the grid, continuity across knots and the tail junction, bitwise identity tails.",
            "Knot locator only aims inputs; inverse direction checked for order/range/end-points with slope-scaled tolerance "
            "(its accuracy is C02/C19); boxes whose bins fall below the dtype's resolution are skipped (counted by label).",
            "DESIGN.md 3/C09"),
    "C10": ("Hypothesis-generated operation histories (phase-structured lists: switches, parameter change, calls) run against "
            "an uncached twin rebuilt from the current state_dict after every call; whole history shrinks as one value",
            "Exploration: histories of 3-30 operations over train/eval/use_cache/forward/inverse/SGD step/load_state_dict/"
            "double/float/forward+backward (repeated)/deepcopy on the five linear classes; after every call outputs, log-dets "
            "and input gradients equal a fresh using_cache=False twin with the subject's current parameters and dtype; "
            "operations that work on the twin must not raise on the subject.",
            "Histories are op lists interpreted with preconditions (SGD only in training mode) instead of a RuleBasedStateMachine "
            "so that the shrunk history is itself the JSON replay file.", "DESIGN.md 3/C10"),
    "C11": ("Hypothesis-generated parameterisations (sizes, Householder counts incl. > features, init modes, perturbed/rescaled "
            "parameters, float32/64, cache priming order) against a numpy float64 reference of x -> Wx+b",
            "Exploration: weight(), weight_inverse(), logabsdet(), combined accessors, forward, inverse, matrix() checked against "
            "numpy slogdet/inv of the returned W with cond-scaled tolerances; orthogonality of Householder sequences for any vector "
            "length; constructor outputs finite and invertible.",
            "cond(W) > 1e8 (float64) / 1e3 (float32) inconclusive.", "DESIGN.md 3/C11"),
    "C12": ("Hypothesis-generated transforms/flows/base distributions with heterogeneous batches (outlier rows, special points); "
            "metamorphic relations row-alone / batch permutation / extra rows, each evaluation on a fresh deep copy",
            "Exploration: for forward, inverse, log_prob and transform_to_noise in evaluation mode (also never-trained models), "
            "float32 and float64: row i of a batch equals the row evaluated alone, permuting the batch permutes the results, "
            "appending rows changes nothing; finiteness patterns must agree too.",
            "Tolerance 1e-9 (float64; 1e-6 for inverses), 5e-3 (float32, forward-type targets only) because BLAS/vector code "
            "paths differ per batch size; saturating chains are inconclusive.", "DESIGN.md 3/C12"),
    "C13": ("Hypothesis-generated call sequences on transforms/flows/distributions with inputs and contexts presented as views, "
            "slices and requires_grad leaves; bit-level before/after comparison of caller tensors and state_dict; repeated calls "
            "under differing RNG states",
            "Exploration: sequences of 2-5 calls (forward, inverse, log_prob, sample, sample_and_log_prob, transform_to_noise, "
            "mean) in eval and train mode: caller tensors (and the base of a slice) unchanged bit-for-bit, eval leaves every "
            "parameter/buffer unchanged and deterministic calls do not depend on the RNG, train changes only normalisation "
            "statistics / ActNorm's one-off initialisation.",
            "Value-preserving in-place writes are unobservable and not reported; calls that raise on exotic presentations are not "
            "violations.", "DESIGN.md 3/C13"),
    "C14": ("Hypothesis-generated operation histories on ActNorm/BatchNorm run in lock-step with a reference model of the "
            "documented life-cycle; outputs, log-dets and state_dict compared after every step",
            "Exploration: histories over train/eval/forward/inverse/save+load into a fresh instance/deepcopy, 2-D and 4-D batches, "
            "drawn momentum/eps; initialise-exactly-once, zero-mean/unit-variance first batch, momentum recurrence, running "
            "statistics in eval, inverse availability, flag persistence.",
            "Reference model written from the docstrings; either variance convention accepted but it must stay fixed; no "
            "optimiser steps generated.", "DESIGN.md 3/C14"),
    "C15": ("Hypothesis-generated models and pre-save histories; differential between the original and a differently seeded "
            "fresh instance after strict load_state_dict (optionally via torch.save/load); bitwise comparison",
            "Exploration: transforms with constructor-time randomness, flows (embedding nets, conditional bases), "
            "MaskedAutoregressiveFlow and SimpleRealNVP, saved fresh / after SGD steps / after training-mode forwards, reloaded "
            "into an instance built under another seed: forward, inverse, log_prob, noise and seeded samples bit-identical in "
            "eval mode, and the same training-mode call on copies of both agrees.",
            "Bit-identity relies on one BLAS thread in one process (OMP_NUM_THREADS=1 set by ./check).", "DESIGN.md 3/C15"),
    "C16": ("Hypothesis-generated transforms/flows in float64; autograd gradients w.r.t. inputs, context and parameters against "
            "Richardson-extrapolated central differences along drawn directions, two step sizes to detect kinks",
            "Exploration: forward and inverse directions and flow log_prob, train and eval mode: autograd.grad succeeds, is finite, "
            "matches finite differences for inputs, context, sampled parameter tensors and all parameters jointly; no parameter "
            "with a non-zero finite difference is left without gradient; a second forward+backward works.",
            "UMNN tolerance 5e-2, cubic inverse 2e-3 (documented numerical limits); step-size disagreement = kink = inconclusive.",
            "DESIGN.md 3/C16"),
    "C17": ("Hypothesis-generated boundary probes (on / 1,2,8 ulp inside / 1,2,8 ulp outside / far) at any batch position, for "
            "every domain-restricted transform and direction, float32 and float64; exception-type and finiteness oracle",
            "Exploration: one probe element placed relative to the domain edge (in the working dtype) among valid elements, for "
            "Exp/Tanh/Sigmoid inverses, Logit, CauchyCDF inverse, spline functions with generated boxes, tail bounds 1e-3..1e4, CDF "
            "classes, coupling and autoregressive wrappers: outside => InputOutsideDomain (exact type), inside => finite, no exception.",
            "Domain edges are the documented bounds rounded to the input dtype; wrappers probed only on features whose box is "
            "parameter-independent; non-finite results under conditioner outputs beyond |10| are inconclusive.",
            "DESIGN.md 3/C17"),
    "C18": ("Hypothesis-generated distributions/flows x event shapes x num_samples x batch_size classes x context; shape oracle, "
            "exception-type oracle for bad arguments, batch-replication and row-identity checks, KS test of batched samples",
            "Exploration: log_prob/sample/sample_and_log_prob shapes for every Distribution and Flow class incl. scalar events, "
            "context with embedding nets, batch sizes dividing / not dividing / exceeding num_samples; ValueError on context row "
            "mismatch, TypeError on non-positive or non-integer counts; batches are independent draws and block i stays block i.",
            "bool counts not generated; DiagonalNormal has no sampler by design.", "DESIGN.md 3/C18"),
    "C19": ("Hypothesis-generated float32 models vs their deepcopy().double() twin; tolerance from an empirical conditioning probe "
            "(float64 result under relative 2^-23 perturbations of inputs and parameters)",
            "Exploration: zoo transforms incl. composites/Inverse/Multiscale in both directions with |parameter| <= 2, |input| <= 5: "
            "float32 does not raise, results finite, dtypes follow the inputs (float32 and float64), |out32-out64| <= 4096*(kappa_hat "
            "+ u32(1+|out64|)).",
            "'moderate magnitude' read as stated in the rule; the cubic inverse's float32 inaccuracy is an open known finding.",
            "DESIGN.md 3/C19"),
    "C20": ("exhaustive small-shape enumeration + Hypothesis generation against numpy reference models; bit-level "
            "argument-unchanged comparison",
            "Exploration: every utils helper on an exhaustive grid of small shapes/integer arguments and on generated "
            "larger ones, each result compared with a numpy reference model and each argument bit-compared with a pre-call clone.",
            "Trusts numpy as the reference; exhaustive only over the named grid (shapes of <=4 dims of size <=3, masks 1-40, "
            "ints in [-64,4200]).", "DESIGN.md 3/C20"),
}

PENDING_REASON = "check not built yet in this round (planned: see DESIGN.md section 3); not claimed until it runs quietly"


def main():
    props = [json.loads(l)["id"] for l in open(os.path.join(ROOT, "properties.jsonl"))]
    checks = []
    for pid in props:
        if pid not in CHECKS:
            continue
        tech, text, note, ref = CHECKS[pid]
        checks.append({
            "property_id": pid,
            "quick_cmd": "./check %s quick" % pid,
            "thorough_cmd": "./check %s thorough" % pid,
            "evidence_file": "evidence/%s.json" % pid,
            "replay_cmd_template": "./check %s quick --replay {path}" % pid,
            "engine": "vf",
            "level_claimed": {"category": "exploration", "text": text, "design_ref": ref},
            "level_note": note,
            "technique": tech,
        })
    man = {
        "version": 1,
        "setup_cmd": "./setup.sh",
        "hooks": {
            "guard": "NFLOWS_VERIF",
            "enable": "no source hooks are needed: every observation point is a public return value, state_dict entry, "
                      "buffer or the caller's own tensor; ./check exports NFLOWS_VERIF=1 and imports nflows from /repo's "
                      "working tree via PYTHONPATH (nothing to build)",
            "baseline_off_cmd": "./runtests.sh",
            "source_commits": [],
            "add_only": True,
        },
        "engines": [{"name": "vf", "path": "vf/", "serves_properties": [c["property_id"] for c in checks],
                     "kind_free_text": "Hypothesis 6.168 strategies sharded over 16 processes + exhaustive enumeration of "
                                       "finite sub-spaces + committed regress replays; oracles: autograd/finite-difference "
                                       "Jacobians, numerical quadrature, KS tests, numpy reference models, float64 twins"}],
        "checks": checks,
        "not_applicable": [{"property_id": p, "reason": PENDING_REASON} for p in props if p not in CHECKS],
        "notes": "All checks: exit 0 = held on everything explored (KNOWN-FINDING lines possible), 1 = VIOLATION line with "
                 "replay file, 2 = harness error. Runs are a pure function of /repo's working tree and VERIF_SEED.",
    }
    with open(os.path.join(ROOT, "MANIFEST.json"), "w") as fh:
        json.dump(man, fh, indent=1)
    print("wrote MANIFEST.json: %d checks, %d not claimed" % (len(checks), len(man["not_applicable"])))


if __name__ == "__main__":
    main()
