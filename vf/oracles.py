"""Oracles independent of the code paths under test: Jacobians, quadrature, KS, normal CDF."""
import math

import numpy as np
import torch


# ------------------------------------------------------------------------------------------ Jacobians

def jac_in_batch(f, X, i):
    """Autograd Jacobian of item i's flattened outputs w.r.t. item i's flattened inputs, other rows held fixed
    inside the same batch (does not presuppose batch independence).  f: X -> Y with leading batch dim."""
    xi = X[i].detach().clone()

    def g(v):
        Xc = torch.cat([X[:i].detach(), v[None], X[i + 1:].detach()], 0)
        return f(Xc)[i].reshape(-1)

    J = torch.autograd.functional.jacobian(g, xi, vectorize=False, create_graph=False)
    return J.reshape(J.shape[0], -1)


def fd_jac_in_batch(f, X, i, h=1e-6):
    xi = X[i].detach().clone().reshape(-1)
    n = xi.numel()
    cols = []
    with torch.no_grad():
        for j in range(n):
            step = h * (1.0 + abs(float(xi[j])))
            xp, xm = xi.clone(), xi.clone()
            xp[j] += step
            xm[j] -= step
            Xp = torch.cat([X[:i], xp.reshape(X[i].shape)[None], X[i + 1:]], 0)
            Xm = torch.cat([X[:i], xm.reshape(X[i].shape)[None], X[i + 1:]], 0)
            cols.append((f(Xp)[i].reshape(-1) - f(Xm)[i].reshape(-1)) / (2 * step))
    return torch.stack(cols, dim=1)


def slogdet64(J):
    s, ld = np.linalg.slogdet(J.detach().double().numpy())
    return float(s), float(ld)


def cond64(J):
    a = J.detach().double().numpy()
    if not np.all(np.isfinite(a)):
        return float("inf")
    try:
        return float(np.linalg.cond(a))
    except Exception:
        return float("inf")


# ------------------------------------------------------------------------------------------ normal / KS

def norm_cdf(x):
    return 0.5 * (1.0 + np.vectorize(math.erf)(np.asarray(x, dtype=np.float64) / math.sqrt(2.0)))


def norm_logpdf(x, mean=0.0, log_std=0.0):
    x = np.asarray(x, dtype=np.float64)
    return -0.5 * ((x - mean) * np.exp(-log_std)) ** 2 - log_std - 0.5 * math.log(2 * math.pi)


def ks_statistic(samples, cdf):
    """Two-sided Kolmogorov-Smirnov distance between the empirical CDF of `samples` and callable `cdf`."""
    s = np.sort(np.asarray(samples, dtype=np.float64).ravel())
    n = len(s)
    F = np.asarray(cdf(s), dtype=np.float64)
    up = np.arange(1, n + 1) / n - F
    dn = F - np.arange(0, n) / n
    return float(max(up.max(), dn.max()))


def ks_threshold(n, p=1e-9):
    """DKW bound: P(D > t) <= 2 exp(-2 n t^2)."""
    return math.sqrt(math.log(2.0 / p) / (2.0 * n))


# ------------------------------------------------------------------------------------------ quadrature

_GL = {}


def _gl(n):
    if n not in _GL:
        _GL[n] = np.polynomial.legendre.leggauss(n)
    return _GL[n]


def gl_panels(f, edges, n):
    """Composite Gauss-Legendre with n nodes on each panel [edges[k], edges[k+1]]; f is vectorised over a 1-D array.
    Returns per-panel integrals."""
    x, w = _gl(n)
    a, b = edges[:-1], edges[1:]
    mid, half = 0.5 * (a + b), 0.5 * (b - a)
    pts = mid[:, None] + half[:, None] * x[None, :]
    vals = f(pts.ravel()).reshape(pts.shape)
    return (vals * w[None, :]).sum(1) * half


def adaptive_quad_1d(f, lo, hi, breaks=(), tol=1e-8, max_evals=400000, init_panels=64):
    """Integral of f over [lo,hi].  Initial panels are aligned with `breaks` (kinks/knots).  Each panel is accepted when
    GL15 and GL7 agree to its share of `tol`, otherwise bisected.  The error estimate is the sum of |GL15-GL7| over
    accepted panels plus |GL15| of panels abandoned at the evaluation budget.  Returns (value, err_estimate, evals)."""
    pts = [lo, hi] + [b for b in breaks if lo < b < hi]
    edges = np.unique(np.concatenate([np.linspace(lo, hi, init_panels + 1), np.asarray(pts, dtype=np.float64)]))
    pa, pb = edges[:-1], edges[1:]
    evals, val, err_tot = 0, 0.0, 0.0
    while len(pa):
        i7 = _panels_ab(f, pa, pb, 7)
        i15 = _panels_ab(f, pa, pb, 15)
        evals += 22 * len(pa)
        err = np.abs(i15 - i7)
        ok = err <= tol * np.maximum((pb - pa) / (hi - lo), 1e-6) + 1e-15
        val += float(i15[ok].sum())
        err_tot += float(err[ok].sum())
        a, b = pa[~ok], pb[~ok]
        if not len(a):
            break
        if evals > max_evals or np.min(b - a) < 1e-13 * max(1.0, abs(hi - lo)):
            val += float(i15[~ok].sum())
            err_tot += float(err[~ok].sum()) + (float(np.abs(i15[~ok]).sum()) if evals > max_evals else 0.0)
            break
        m = 0.5 * (a + b)
        pa, pb = np.concatenate([a, m]), np.concatenate([m, b])
    return val, err_tot, evals


def _panels_ab(f, a, b, n):
    x, w = _gl(n)
    mid, half = 0.5 * (a + b), 0.5 * (b - a)
    pts = mid[:, None] + half[:, None] * x[None, :]
    vals = f(pts.ravel()).reshape(pts.shape)
    return (vals * w[None, :]).sum(1) * half


def quad_1d(f, lo, hi, breaks=(), tol=1e-8, max_evals=400000):
    """Robust 1-D integral: adaptive estimate plus an independent second estimate on shifted/finer initial panels;
    the reported error is max(estimate, |difference|)."""
    v1, e1, n1 = adaptive_quad_1d(f, lo, hi, breaks, tol, max_evals, init_panels=64)
    v2, e2, n2 = adaptive_quad_1d(f, lo, hi, breaks, tol, max_evals, init_panels=97)
    return v2, max(e1, e2, abs(v1 - v2)), n1 + n2


def cumulative_quad_1d(f, grid, sub=8):
    """CDF values on `grid` (increasing) by composite GL on each grid cell; grid cells should be aligned with kinks."""
    cells = gl_panels(f, np.asarray(grid, dtype=np.float64), 15)
    return np.concatenate([[0.0], np.cumsum(cells)])


def selftest():
    # smooth
    v, e, _ = quad_1d(lambda x: np.exp(-0.5 * x * x) / math.sqrt(2 * math.pi), -10, 10)
    assert abs(v - 1) < 1e-10 and e < 1e-7, (v, e)
    # kink at an unaligned point
    v, e, _ = quad_1d(lambda x: np.abs(x - 0.123456), -1, 1)
    ref = 0.5 * ((1 + 0.123456) ** 2 + (1 - 0.123456) ** 2)
    assert abs(v - ref) < 1e-8 + 10 * e, (v, ref, e)
    # narrow spike
    s = 1e-3
    v, e, _ = quad_1d(lambda x: np.exp(-0.5 * ((x - 0.3) / s) ** 2) / (s * math.sqrt(2 * math.pi)), -1, 1, breaks=(0.3,))
    assert abs(v - 1) < 1e-7 + 10 * e, (v, e)
    # jump
    v, e, _ = quad_1d(lambda x: (x > 0.2).astype(float), 0, 1, breaks=(0.2,))
    assert abs(v - 0.8) < 1e-9, v
    # KS: exact normal samples pass, shifted fail
    rng = np.random.RandomState(0)
    z = rng.standard_normal(200000)
    assert ks_statistic(z, norm_cdf) < ks_threshold(200000)
    assert ks_statistic(z * 1.03, norm_cdf) > ks_threshold(200000)
