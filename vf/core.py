"""Shared runner: sharded Hypothesis search + enumerated cases + regress replays, known-finding
filtering, evidence, replay files.  See DESIGN.md section 1."""
import contextlib
import hashlib
import importlib
import json
import os
import sys
import time
import traceback
from collections import Counter

ROOT = os.path.dirname(os.path.dirname(os.path.abspath(__file__)))
REPO = os.path.realpath(os.environ.get("VF_REPO", "/repo"))


class HarnessError(Exception):
    pass


class ViolationFound(Exception):
    pass


class StopSearch(KeyboardInterrupt):
    """Raised inside the Hypothesis test to abort shrinking once the guard time is used up (Hypothesis re-raises
    KeyboardInterrupt immediately); the best failing case recorded so far is reported."""


def failure(kind, site, msg, measured=None, tol=None, **sig):
    f = {"kind": kind, "site": site, "msg": str(msg)[:600]}
    if measured is not None:
        f["measured"] = float(measured)
    if tol is not None:
        f["tol"] = float(tol)
    if sig:
        f["sig"] = sig
    return f


class CaseResult:
    __slots__ = ("nontrivial", "labels", "failures", "inconclusive", "ratio")

    def __init__(self, nontrivial=False, labels=(), failures=(), inconclusive=0, ratio=None):
        self.nontrivial = bool(nontrivial)
        self.labels = list(labels)
        self.failures = list(failures)
        self.inconclusive = int(inconclusive)
        self.ratio = ratio

    def fail(self, *a, **k):
        self.failures.append(failure(*a, **k))

    def see_ratio(self, measured, tol):
        r = float(measured) / float(tol) if tol > 0 else (0.0 if measured == 0 else float("inf"))
        if r != r:
            r = float("inf")
        if self.ratio is None or r > self.ratio:
            self.ratio = r
        return r


@contextlib.contextmanager
def dtype_mode(precise):
    import torch

    old = torch.get_default_dtype()
    torch.set_default_dtype(torch.float64 if precise else torch.float32)
    try:
        yield
    finally:
        torch.set_default_dtype(old)


def canon(case):
    return json.dumps(case, sort_keys=True, separators=(",", ":"), default=str)


def case_hash(case):
    return hashlib.sha1(canon(case).encode()).hexdigest()


def nflows_site(exc):
    """Innermost traceback frame that lies inside the nflows package under test, as 'file:function'."""
    tb = exc.__traceback__
    site = None
    while tb is not None:
        fn = os.path.realpath(tb.tb_frame.f_code.co_filename)
        if fn.startswith(os.path.join(REPO, "nflows") + os.sep):
            site = "%s:%s" % (os.path.relpath(fn, REPO), tb.tb_frame.f_code.co_name)
        tb = tb.tb_next
    return site


# ---------------------------------------------------------------------------------------------
# known findings

def load_known(prop):
    p = os.path.join(ROOT, "known_findings.json")
    if not os.path.exists(p):
        return []
    with open(p) as fh:
        data = json.load(fh)
    return [e for e in data.get("findings", []) if e.get("property") == prop and e.get("status") == "open"]


def match_known(entries, f):
    flat = {"kind": f.get("kind"), "site": f.get("site")}
    flat.update(f.get("sig", {}))
    for e in entries:
        ok = True
        for k, v in e.get("match", {}).items():
            if k.startswith("max_"):
                x = flat.get(k[4:], f.get(k[4:]))
                if x is None or not (x <= v):
                    ok = False
            elif k.startswith("min_"):
                x = flat.get(k[4:], f.get(k[4:]))
                if x is None or not (x >= v):
                    ok = False
            elif k.endswith("_in"):
                if flat.get(k[:-3]) not in v:
                    ok = False
            elif flat.get(k) != v:
                ok = False
            if not ok:
                break
        if ok:
            return e
    return None


# ---------------------------------------------------------------------------------------------
# per-worker statistics

class Stats:
    def __init__(self):
        self.evaluations = 0
        self.nontrivial = set()
        self.labels = Counter()
        self.samples = []
        self.inconclusive = 0
        self.excluded_known = Counter()
        self.max_ratio = 0.0
        self.fail_best = None  # (size, case, failures)
        self.first_fail_time = None
        self.stopped_early = 0
        self.buckets = {}
        self.slowest = (0.0, "")

    def export(self):
        return {
            "evaluations": self.evaluations,
            "nontrivial": list(self.nontrivial),
            "labels": dict(self.labels),
            "samples": self.samples,
            "inconclusive": self.inconclusive,
            "excluded_known": dict(self.excluded_known),
            "max_ratio": self.max_ratio,
            "stopped_early": self.stopped_early,
            "slowest": self.slowest,
            "violations": [{"case": c, "failures": f} for (_, c, f) in self.buckets.values()],
        }


def execute(mod, case, stats, known):
    """Run one case; record statistics; return the list of failures not covered by a known finding."""
    t_case = time.time()
    try:
        # every case is a pure function of its JSON: layers whose constructors draw from the global torch RNG (conditioner
        # networks, random permutations) would otherwise depend on the cases that ran before, and replays would not reproduce
        import torch
        torch.manual_seed(int(case_hash(case)[:8], 16))
        res = mod.run_case(case)
    except (HarnessError, KeyboardInterrupt):
        raise
    except Exception as e:  # noqa
        site = nflows_site(e)
        if site is None:
            raise HarnessError("exception outside nflows in run_case: %r\ncase=%s\n%s" % (
                e, canon(case)[:1500], traceback.format_exc()[-1200:])) from None
        res = CaseResult(nontrivial=True, labels=["unexpected_exception"])
        res.fail("unexpected_exception", site, "%s: %s" % (type(e).__name__, e), exc=type(e).__name__)
    stats.evaluations += 1
    dt = time.time() - t_case
    if dt > stats.slowest[0]:
        stats.slowest = (dt, canon(case)[:600])
    for lab in res.labels:
        stats.labels[lab] += 1
    stats.inconclusive += res.inconclusive
    if res.ratio is not None and res.ratio == res.ratio and res.ratio != float("inf"):
        stats.max_ratio = max(stats.max_ratio, res.ratio)
    if res.nontrivial:
        h = case_hash(case)[:16]
        if h not in stats.nontrivial:
            stats.nontrivial.add(h)
            if len(stats.samples) < 3:
                s = canon(case)
                stats.samples.append(case if len(s) <= 3000 else {"truncated": s[:3000]})
    fresh = []
    for f in res.failures:
        e = match_known(known, f)
        if e is not None:
            stats.excluded_known[e["id"]] += 1
        else:
            fresh.append(f)
    if fresh:
        size = len(canon(case))
        if stats.first_fail_time is None:
            stats.first_fail_time = time.time()
        key = (fresh[0]["kind"], fresh[0]["site"])
        if key not in stats.buckets or size < stats.buckets[key][0]:
            stats.buckets[key] = (size, case, fresh)
    return fresh, res


def worker(args):
    (prop, tier, k, nworkers, seed, enum_cases, regress, n_examples, t_end, shrink_guard) = args
    out = {"k": k}
    stats = Stats()
    t_start = time.time()
    if os.environ.get("VF_STACKS"):
        import faulthandler
        faulthandler.dump_traceback_later(25, repeat=True, file=open("/tmp/vf_stack_%d.txt" % k, "w"))
    try:
        mod = importlib.import_module("vf.props.%s" % prop.lower())
        known = load_known(prop)
        import torch

        torch.set_num_threads(1)
        for case in regress:
            execute(mod, case, stats, known)
        for case in enum_cases:
            if time.time() > t_end:
                stats.stopped_early += 1
                continue
            execute(mod, case, stats, known)
        if n_examples > 0 and hasattr(mod, "case_strategy"):
            import hypothesis
            from hypothesis import HealthCheck, Phase, given, settings

            hseed = int(hashlib.sha256(("%s:%s:%s" % (seed, prop, k)).encode()).hexdigest()[:12], 16)
            strat = mod.case_strategy(tier)
            use_target = bool(getattr(mod, "USE_TARGET", False))

            @hypothesis.seed(hseed)
            @settings(max_examples=n_examples, database=None, deadline=None, derandomize=False,
                      report_multiple_bugs=False, suppress_health_check=list(HealthCheck),
                      phases=([Phase.generate, Phase.target, Phase.shrink] if use_target else [Phase.generate, Phase.shrink]),
                      verbosity=hypothesis.Verbosity.quiet)
            @given(strat)
            def test(case):
                now = time.time()
                if now > t_end and stats.first_fail_time is None:
                    stats.stopped_early += 1
                    return
                if stats.first_fail_time is not None and now - stats.first_fail_time > shrink_guard:
                    raise StopSearch()
                fresh, res = execute(mod, case, stats, known)
                if use_target and res.ratio is not None and res.ratio == res.ratio:
                    hypothesis.target(min(float(res.ratio), 10.0))
                if fresh:
                    raise ViolationFound()

            try:
                test()
            except HarnessError:
                raise
            except BaseException as e:  # ViolationFound, Flaky, ...
                if not stats.buckets:
                    if isinstance(e, KeyboardInterrupt):
                        raise
                    raise HarnessError("hypothesis raised without a recorded violation: %r\n%s" % (
                        e, traceback.format_exc()[-1500:])) from None
    except BaseException as e:  # noqa
        out["harness_error"] = ("%s" % e) if isinstance(e, HarnessError) else "%r\n%s" % (e, traceback.format_exc()[-1500:])
    out.update(stats.export())
    out["wall"] = time.time() - t_start
    out["t_first_fail"] = (stats.first_fail_time - t_start) if stats.first_fail_time else None
    return out


# ---------------------------------------------------------------------------------------------

def _entry(job, conn):
    try:
        out = worker(job)
    except BaseException as e:  # noqa
        out = {"k": job[2], "harness_error": "worker crashed: %r" % (e,), "evaluations": 0, "nontrivial": [], "labels": {},
               "samples": [], "inconclusive": 0, "excluded_known": {}, "max_ratio": 0.0, "stopped_early": 0, "violations": [],
               "wall": 0.0, "t_first_fail": None}
    try:
        conn.send(out)
        conn.close()
    finally:
        os._exit(0)  # skip interpreter/torch teardown in the forked child (it can stall for minutes)


def run_jobs(jobs):
    """One forked process per job; results come back over pipes; children leave through os._exit."""
    import multiprocessing as mp
    from multiprocessing.connection import wait

    if len(jobs) == 1:
        return [worker(jobs[0])]
    ctx = mp.get_context("fork")
    procs, conns = [], {}
    for job in jobs:
        parent, child = ctx.Pipe(duplex=False)
        p = ctx.Process(target=_entry, args=(job, child), daemon=True)
        p.start()
        child.close()
        procs.append(p)
        conns[parent] = job[2]
    results = []
    pending = dict(conns)
    while pending:
        for c in wait(list(pending.keys())):
            k = pending.pop(c)
            try:
                results.append(c.recv())
            except EOFError:
                results.append({"k": k, "harness_error": "worker %d died without a result" % k, "evaluations": 0,
                                "nontrivial": [], "labels": {}, "samples": [], "inconclusive": 0, "excluded_known": {},
                                "max_ratio": 0.0, "stopped_early": 0, "violations": [], "wall": 0.0, "t_first_fail": None})
    for p in procs:
        p.join(timeout=5)
        if p.is_alive():
            p.kill()
    return results


def load_regress(prop):
    d = os.path.join(ROOT, "replays", prop, "regress")
    cases = []
    if os.path.isdir(d):
        for fn in sorted(os.listdir(d)):
            if fn.endswith(".json"):
                with open(os.path.join(d, fn)) as fh:
                    obj = json.load(fh)
                cases.append(obj["case"] if "case" in obj else obj)
    return cases


def write_replay(prop, case, failures):
    d = os.path.join(ROOT, "replays", prop, "found")
    os.makedirs(d, exist_ok=True)
    p = os.path.join(d, case_hash(case)[:12] + ".json")
    with open(p, "w") as fh:
        json.dump({"property": prop, "case": case, "failures": failures}, fh, indent=1, sort_keys=True, default=str)
    return os.path.relpath(p, ROOT)


def run_check(prop, tier, replay=None):
    t0 = time.time()
    seed = int(os.environ.get("VERIF_SEED", "1") or 1)
    import nflows

    nf = os.path.realpath(nflows.__file__)
    if not nf.startswith(REPO + os.sep):
        print("harness error: nflows imported from %s, expected under %s" % (nf, REPO), file=sys.stderr)
        return 2
    mod = importlib.import_module("vf.props.%s" % prop.lower())
    known = load_known(prop)

    if replay:
        with open(replay) as fh:
            obj = json.load(fh)
        case = obj["case"] if "case" in obj else obj
        stats = Stats()
        import torch

        torch.set_num_threads(1)
        try:
            fresh, res = execute(mod, case, stats, known)
        except HarnessError as e:
            print("harness error: %s" % e, file=sys.stderr)
            return 2
        for kid, n in stats.excluded_known.items():
            print("KNOWN-FINDING: property=%s %s" % (prop, kid))
        if fresh:
            for f in fresh:
                print("  failure: %s" % json.dumps(f, default=str))
            print("VIOLATION property=%s replay=%s" % (prop, replay))
            return 1
        print("replay held: property=%s labels=%s" % (prop, res.labels))
        return 0

    nworkers = int(os.environ.get("VF_WORKERS", "16"))
    budget = mod.budget(tier)
    scale = float(os.environ.get("VF_BUDGET_SCALE", "1"))
    n_total = int(budget.get("examples", 0) * scale)
    wall = budget.get("wall_s", 120 if tier == "quick" else 1500)
    t_end = t0 + wall
    shrink_guard = 30 if tier == "quick" else 240
    enum_all = list(mod.enumerate_cases(tier)) if hasattr(mod, "enumerate_cases") else []
    regress = load_regress(prop)
    jobs = []
    for k in range(nworkers):
        jobs.append((prop, tier, k, nworkers, seed, enum_all[k::nworkers], regress if k == 0 else [],
                     (n_total + nworkers - 1) // nworkers if n_total else 0, t_end, shrink_guard))
    results = run_jobs(jobs)

    ev = 0
    nontriv = set()
    labels = Counter()
    samples = []
    inconcl = 0
    excluded = Counter()
    max_ratio = 0.0
    stopped = 0
    violations = []
    herrs = []
    for r in sorted(results, key=lambda r: r["k"]):
        ev += r["evaluations"]
        nontriv.update(r["nontrivial"])
        labels.update(r["labels"])
        for s in r["samples"][: (3 if r["k"] == 0 else 1)]:
            if len(samples) < 6:
                samples.append(s)
        inconcl += r["inconclusive"]
        excluded.update(r["excluded_known"])
        max_ratio = max(max_ratio, r["max_ratio"])
        stopped += r["stopped_early"]
        violations.extend(r["violations"])
        if "harness_error" in r:
            herrs.append(r["harness_error"])

    # one report per (kind, site) bucket, smallest case first
    buckets = {}
    for v in violations:
        key = (v["failures"][0]["kind"], v["failures"][0]["site"])
        if key not in buckets or len(canon(v["case"])) < len(canon(buckets[key]["case"])):
            buckets[key] = v

    wall_s = time.time() - t0
    evidence = {
        "property_id": prop,
        "tier": tier,
        "seed": seed,
        "level": "exploration",
        "coverage": {
            "evaluations": ev,
            "distinct_nontrivial": len(nontriv),
            "rule": mod.RULE,
            "samples": samples,
            "labels": dict(sorted(labels.items(), key=lambda kv: -kv[1])[:60]),
            "enumerated_cases": len(enum_all),
            "regress_replays": len(regress),
            "generated_budget": n_total,
            "inconclusive": inconcl,
            "excluded_known": dict(excluded),
            "max_ratio_measured_over_tolerance": max_ratio,
            "stopped_early_cases": stopped,
            "exhaustive": bool(getattr(mod, "EXHAUSTIVE", {}).get(tier, False)) and stopped == 0,
            "explanation": getattr(mod, "EXPLANATION", ""),
            "workers": nworkers,
        },
        "assumptions": list(getattr(mod, "ASSUMPTIONS", [])),
        "wall_s": round(wall_s, 2),
        "violations": len(buckets),
    }
    os.makedirs(os.path.join(ROOT, "evidence"), exist_ok=True)
    with open(os.path.join(ROOT, "evidence", prop + ".json"), "w") as fh:
        json.dump(evidence, fh, indent=1, default=str)

    if os.environ.get("VF_DEBUG"):
        for r in sorted(results, key=lambda r: r["k"]):
            print("  worker %2d: %5d cases %.1fs first_fail=%s slowest=%.1fs %s" % (r["k"], r["evaluations"], r["wall"], r["t_first_fail"], r.get("slowest", (0, ""))[0], r.get("slowest", (0, ""))[1] if r["wall"] > 60 else ""))
    print("%s %s seed=%d: %d cases (%d distinct non-trivial, %d enumerated, %d inconclusive, %d stopped early), "
          "max measured/tol=%.3g, %.1fs" % (prop, tier, seed, ev, len(nontriv), len(enum_all), inconcl, stopped,
                                            max_ratio, wall_s))
    top = ", ".join("%s=%d" % kv for kv in sorted(labels.items(), key=lambda kv: -kv[1])[:14])
    print("  labels: " + top)
    known_by_id = {e["id"]: e for e in known}
    for kid, n in excluded.items():
        print("KNOWN-FINDING: property=%s %s (%s; hit %d times)" % (prop, kid, known_by_id[kid].get("what", ""), n))
    if buckets:
        for key, v in buckets.items():
            p = write_replay(prop, v["case"], v["failures"])
            print("  failure: %s" % json.dumps(v["failures"][0], default=str)[:800])
            print("VIOLATION property=%s replay=%s" % (prop, p))
        return 1
    if herrs:
        print("harness error (%d workers):\n%s" % (len(herrs), herrs[0][:300] + "\n...\n" + herrs[0][-1500:]), file=sys.stderr)
        return 2
    if ev == 0 or len(nontriv) < 2:
        print("harness error: check explored nothing non-trivial", file=sys.stderr)
        return 2
    return 0
