"""C18 - the distribution interface keeps its documented shape and argument contract."""
import json
import numpy as np
import torch
from hypothesis import strategies as st

from vf import zoo
from vf.core import CaseResult, dtype_mode
from vf.oracles import ks_statistic, ks_threshold, norm_cdf

PROPERTY = "C18"
RULE = ("A Distribution or Flow (StandardNormal, DiagonalNormal, ConditionalDiagonalNormal with identity/Linear encoder, "
        "ConditionalIndependentBernoulli, MADEMoG with/without context, Flow over a zoo transform with standard/conditional base "
        "and optional embedding net, MaskedAutoregressiveFlow, SimpleRealNVP) x event shapes ([], [1], [2], [3,1], [1,3], [2,3], "
        "[2,1,2]) x num_samples 1-9 x batch_size {None, 1, divisor, non-divisor, > num_samples} x context {none, 1-4 rows}. "
        "Oracles: log_prob -> [rows]; sample(n) -> [n,*event]; sample(n, c) -> [rows, n, *event] for every batch_size; "
        "sample_and_log_prob -> matching [rows, n, *event] / [rows, n]; batched draws are distinct (not one batch replicated) and, "
        "with a row-identifying conditional base (mean 100*i, sigma 0.01), block i stays block i; batched StandardNormal "
        "samples pass a KS test; context row mismatch -> ValueError; num_samples / batch_size in {0, -3, 2.0, '3', None, [2]} -> "
        "TypeError. MADEMoG with >= 2 context rows: block i of a batched 3000-draw sample follows the mixture conditioned on row i (KS, p=1e-9). "
        "StandardNormal with float32 / float64 / int64 (class-label) contexts: floating-point samples, every row standard normal (KS, 1500 draws). "
        "Non-trivial: context and batch_size both given, or an error-path case. Distinct = distinct case JSON.")
ASSUMPTIONS = ["True/False are not generated as counts (bool is an int subclass; the predicate documents nothing else)",
               "DiagonalNormal offers no sampling (NotImplementedError is its documented behaviour)"]
EXPLANATION = "generated"

EVENTS = [[], [1], [2], [3, 1], [1, 3], [2, 3], [2, 1, 2], [4]]
BAD = [0, -3, 2.0, "3", None, [2]]


def budget(tier):
    return {"examples": 9000 if tier == "quick" else 200000, "wall_s": 100 if tier == "quick" else 1200}


@st.composite
def _case(draw):
    kind = draw(st.sampled_from(["standard", "standard", "diagonal", "conditional", "conditional_identity", "bernoulli", "mademog",
                                 "flow", "flow", "maf", "realnvp", "rowid"]))
    n = draw(st.integers(1, 9))
    bs = draw(st.sampled_from(["none", "one", "divisor", "nondivisor", "bigger"]))
    c = {"kind": kind, "event": draw(st.sampled_from(EVENTS)), "n": n, "bs": bs, "rows": draw(st.sampled_from([None, 1, 2, 3, 4])),
         "seed": draw(st.integers(0, 10 ** 6)), "embed": draw(st.booleans()),
         "what": draw(st.sampled_from(["shapes", "shapes", "shapes", "bad_n", "bad_bs", "ctx_mismatch", "ks"]))}
    if c["what"] in ("bad_n", "bad_bs"):
        c["bad"] = draw(st.integers(0, len(BAD) - 1))
    if kind == "standard":
        c["ctx_dtype"] = draw(st.sampled_from(["float32", "float32", "int64", "float64"]))   # (class labels as context: only its row count matters here)
    if kind == "flow":
        t = draw(zoo.transform_case({"img": False, "regimes": ["fresh", "small"], "umnn": False, "doms": ["R"], "fn_box": False,
                                     "exclude": ["exp", "tanh", "sigmoid", "cauchycdf", "batchnorm", "actnorm", "logtanh"]}))   # (LogTanh^-1 grows like exp: two of them overflow ordinary noise to inf, then NaN)
        c.update({"shape": t["shape"], "dom": "R", "ctx": t["ctx"], "spec": t["spec"], "init": t["init"]})
        c["base"] = draw(st.sampled_from(["standard", "conditional"]))
    if kind in ("maf", "realnvp"):
        c["features"] = draw(st.integers(2, 4))
    return c


def case_strategy(tier):
    return _case()


def _make(case):
    from nflows import distributions as dist
    from nflows.flows import Flow, MaskedAutoregressiveFlow, SimpleRealNVP

    kind = case["kind"]
    ev = list(case["event"])
    D = int(np.prod(ev)) if ev else 1
    torch.manual_seed(case["seed"])
    needs_ctx, ctxw = False, 3
    if kind == "standard":
        obj = dist.StandardNormal(ev)
    elif kind == "diagonal":
        obj = dist.DiagonalNormal(ev if ev else [1])
        ev = ev if ev else [1]
    elif kind == "conditional":
        obj = dist.ConditionalDiagonalNormal(ev, context_encoder=torch.nn.Linear(ctxw, 2 * D))
        needs_ctx = True
    elif kind in ("conditional_identity", "rowid"):
        obj = dist.ConditionalDiagonalNormal(ev)
        needs_ctx, ctxw = True, 2 * D
    elif kind == "bernoulli":
        obj = dist.ConditionalIndependentBernoulli(ev, context_encoder=torch.nn.Linear(ctxw, D))
        needs_ctx = True
    elif kind == "mademog":
        ev = [max(1, D)] if len(ev) != 1 else ev
        obj = dist.MADEMoG(ev[0], 8, ctxw if case["rows"] else None, num_blocks=1, num_mixture_components=2)
    elif kind == "maf":
        ev = [case["features"]]
        obj = MaskedAutoregressiveFlow(ev[0], 8, 2, 1)
    elif kind == "realnvp":
        ev = [case["features"]]
        obj = SimpleRealNVP(ev[0], 8, 2, 1)
    else:  # flow
        b = zoo.instantiate(case)
        ev = list(b.out_shape)
        ctxk = case.get("ctx")
        ctxw = ctxk
        base = dist.ConditionalDiagonalNormal(ev, context_encoder=torch.nn.Linear(ctxk, 2 * ev[0])) if (case["base"] == "conditional" and ctxk) \
            else dist.StandardNormal(ev)
        emb = None
        if case["embed"] and ctxk:
            emb = torch.nn.Linear(5, ctxk)
            ctxw = 5
        obj = Flow(b.module, base, embedding_net=emb)
        needs_ctx = ctxk is not None
        if ctxk is None:
            ctxw = None
    obj.eval()
    return obj, ev, needs_ctx, ctxw


def _bs(case):
    n = case["n"]
    k = case["bs"]
    if k == "none":
        return None
    if k == "one":
        return 1
    if k == "divisor":
        ds = [d for d in range(1, n + 1) if n % d == 0]
        return ds[len(ds) // 2]
    if k == "nondivisor":
        nd = [d for d in range(2, n) if n % d]
        return nd[0] if nd else n + 1
    return n + 2


def run_case(case):
    res = CaseResult()
    with dtype_mode(False):
        obj, ev, needs_ctx, ctxw = _make(case)
        site = type(obj).__name__
        kind = case["kind"]
        rows = case["rows"]
        if needs_ctx and rows is None:
            rows = 2
        if kind in ("maf", "realnvp", "standard", "diagonal") and False:
            rows = None
        if kind == "flow" and not needs_ctx:
            rows = None
        if kind in ("maf", "realnvp"):
            rows = None   # these flows are unconditional
        g = torch.Generator().manual_seed(case["seed"] + 1)
        ctx = None
        if rows is not None and ctxw is not None:
            ctx = torch.randn(rows, ctxw, generator=g)
            if kind == "rowid":
                D = int(np.prod(ev)) if ev else 1
                ctx = torch.cat([100.0 * torch.arange(rows, dtype=torch.float32)[:, None].expand(rows, D),
                                 torch.full((rows, D), float(np.log(1e-2)))], 1)
        if kind == "standard" and ctx is not None and case.get("ctx_dtype", "float32") != "float32":
            ctx = (ctx * 3).round().long() if case["ctx_dtype"] == "int64" else ctx.double()
            res.labels.append("ctx_dtype:" + case["ctx_dtype"])
        n, bs = case["n"], _bs(case)
        what = case["what"]
        res.labels += ["kind:" + kind, "what:" + what, "bs:" + case["bs"], "ctx:%s" % (ctx is not None), "event:%s" % ev]
        can_sample = kind != "diagonal"
        # ---------------- error paths
        if what == "bad_n":
            bad = BAD[case["bad"]]
            res.nontrivial = True
            for name, call in (("sample", lambda: obj.sample(bad, ctx)), ("sample_and_log_prob", lambda: obj.sample_and_log_prob(bad, ctx))):
                if not can_sample:
                    continue
                try:
                    call()
                except TypeError:
                    continue
                except Exception as e:
                    res.fail("wrong_exception", site, "%s(num_samples=%r) raised %s instead of TypeError" % (name, bad, type(e).__name__), arg=repr(bad))
                    return res
                res.fail("missing_rejection", site, "%s(num_samples=%r) returned" % (name, bad), arg=repr(bad))
                return res
            return res
        if what == "bad_bs":
            bad = BAD[case["bad"]]
            if bad is None or not can_sample:   # None is the documented 'no batching'
                return res
            res.nontrivial = True
            try:
                obj.sample(n, ctx, batch_size=bad)
            except TypeError:
                return res
            except Exception as e:
                res.fail("wrong_exception", site, "sample(batch_size=%r) raised %s instead of TypeError" % (bad, type(e).__name__), arg=repr(bad))
                return res
            res.fail("missing_rejection", site, "sample(batch_size=%r) returned" % (bad,), arg=repr(bad))
            return res
        if what == "ctx_mismatch":
            if ctx is None:
                return res
            x = torch.zeros([rows + 1] + ev)
            res.nontrivial = True
            try:
                obj.log_prob(x, ctx)
            except ValueError:
                return res
            except Exception as e:
                res.fail("wrong_exception", site, "log_prob with %d inputs and %d context rows raised %s instead of ValueError" % (rows + 1, rows, type(e).__name__))
                return res
            res.fail("missing_rejection", site, "log_prob accepted %d inputs with %d context rows" % (rows + 1, rows))
            return res
        # ---------------- shapes
        r_in = rows if rows is not None else 3
        x = torch.rand([r_in] + ev, generator=g) if kind == "bernoulli" else torch.randn([r_in] + ev, generator=g)
        if kind == "bernoulli":
            x = (x > 0.5).float()
        with torch.no_grad():
            lp = obj.log_prob(x, ctx)
        if tuple(lp.shape) != (r_in,):
            res.fail("log_prob_shape", site, "log_prob of %s inputs has shape %s, want (%d,)" % ([r_in] + ev, tuple(lp.shape), r_in), event=str(ev))
            return res
        if not can_sample:
            try:
                obj.sample(n, ctx)
                res.fail("missing_rejection", site, "DiagonalNormal.sample returned although sampling is not implemented")
            except NotImplementedError:
                pass
            return res
        want = ([rows] if ctx is not None else []) + [n] + ev
        with torch.no_grad():
            torch.manual_seed(case["seed"] + 2)
            s = obj.sample(n, ctx, batch_size=bs) if bs is not None else obj.sample(n, ctx)
        if list(s.shape) != want:
            res.fail("sample_shape", site, "sample(%d, context=%s rows, batch_size=%r) has shape %s, want %s" % (
                n, rows if ctx is not None else None, bs, list(s.shape), want), bs=case["bs"], ctx=ctx is not None)
            return res
        with torch.no_grad():
            s2, lp2 = obj.sample_and_log_prob(n, ctx)
        if list(s2.shape) != want or list(lp2.shape) != want[: len(want) - len(ev)]:
            res.fail("sample_and_log_prob_shape", site, "sample_and_log_prob(%d, context=%s rows) shapes %s / %s, want %s / %s" % (
                n, rows if ctx is not None else None, list(s2.shape), list(lp2.shape), want, want[: len(want) - len(ev)]), event=str(ev))
            return res
        res.nontrivial = ctx is not None and bs is not None
        # batching must not replicate one batch: two full batches of a continuous distribution are never identical
        if kind not in ("bernoulli",) and bs is not None and n >= 2 * bs:
            ax = 1 if ctx is not None else 0
            chunks = [s.narrow(ax, k * bs, bs) for k in range(n // bs)]
            for k in range(1, len(chunks)):
                if torch.equal(chunks[0], chunks[k]) and float(chunks[0].std() if chunks[0].numel() > 1 else 1.0) > 0 and \
                        bool(torch.isfinite(chunks[0]).all()) and float(chunks[0].abs().max()) < 1e30 and \
                        (kind != "flow" or (chunks[0].numel() >= 2 and chunks[0].unique().numel() == chunks[0].numel()
                                            and not any('"t": "%s"' % t_ in json.dumps(case.get("spec", {})) for t_ in ("compositecdf", "leakyrelu", "logit", "sigmoid")))):
                    # (two draws overflowing to inf are equal; so are two draws a flow's declared clamp maps to the same value -
                    #  LeakyReLU^-1 stretches by 100, the CompositeCDF logit clamps at -13.8155: for flows a block must hold >= 2 distinct values;
                    #  with a wide conditional base every feature of two draws can saturate, and a later linear layer makes the clamped values
                    #  pairwise distinct: flows containing a clamping part are not judged by this equality)
                    res.fail("duplicate_draws", site, "sample(%d, batch_size=%d): batch %d is identical to batch 0 (batches are not independent draws)" % (n, bs, k),
                             bs=case["bs"])
                    return res
        if kind == "rowid":
            D = int(np.prod(ev)) if ev else 1
            centers = 100.0 * torch.arange(rows, dtype=torch.float32).reshape([rows, 1] + [1] * len(ev))
            if float((s - centers).abs().max()) > 1.0 or float((s2 - centers).abs().max()) > 1.0:
                res.fail("block_identity", site, "block i of sample(n, context) is not drawn under context row i (row-identifying base, batch_size=%r)" % (bs,), bs=case["bs"])
                return res
        if kind == "mademog" and ctx is not None and rows >= 2:
            # block i of the batched sample must follow the mixture conditioned on context row i (first coordinate: explicit mixture)
            N = 3000
            cs = ctx * 3.0
            bsz = [None, 7, 64, 999, 3001][case["seed"] % 5]
            with torch.no_grad():
                big = obj.sample(N, cs, batch_size=bsz) if bsz is not None else obj.sample(N, cs)
            if list(big.shape) != [rows, N] + ev:
                res.fail("sample_shape", site, "large batched sample shape %s" % list(big.shape))
                return res
            thr = ks_threshold(N)
            res.labels.append("mog_rows_ks")
            for i in range(rows):
                with torch.no_grad():
                    o = obj._made(torch.zeros(1, ev[0]), cs[i:i + 1]).reshape(1, ev[0], 2, 3).double()
                w = torch.softmax(o[0, 0, :, 0], -1).numpy()
                mu = o[0, 0, :, 1].numpy()
                sd = (torch.nn.functional.softplus(o[0, 0, :, 2]) + obj._made.epsilon).numpy()
                d = ks_statistic(big[i, :, 0].double().numpy(), lambda t: sum(wk * norm_cdf((t - mk) / sk) for wk, mk, sk in zip(w, mu, sd)))
                res.see_ratio(d, thr)
                if d > thr:
                    res.fail("block_identity", site, "MADEMoG: block %d of sample(n, context, batch_size=%r) does not follow the mixture conditioned on context "
                             "row %d (KS %.4f > %.4f, %d rows)" % (i, bsz, i, d, thr, rows), bs=str(bsz))
                    return res
        if kind == "bernoulli" and ctx is not None and rows >= 2:
            # n draws PER context row: two rows with the same probabilities must not receive the same random bits
            D_ = int(np.prod(ev)) if ev else 1
            n_ = max(2, (96 + D_ - 1) // D_)
            same_ctx = ctx[:1].expand(rows, -1).contiguous() * 0.2            # p near 1/2 in every coordinate
            with torch.no_grad():
                bsz = [None, 1, 3][case["seed"] % 3]
                sb = obj.sample(n_, same_ctx, batch_size=bsz) if bsz else obj.sample(n_, same_ctx)
            if list(sb.shape) != [rows, n_] + ev:
                res.fail("sample_shape", site, "Bernoulli sample shape %s, want %s" % (list(sb.shape), [rows, n_] + ev))
                return res
            if torch.equal(sb[0], sb[1]):
                res.fail("rows_share_randomness", site, "sample(%d, context) with two identical context rows returns bit-identical blocks "
                         "(%d fair-ish coin flips per row)" % (n_, n_ * D_))
                return res
            res.labels.append("bernoulli_rows_independent")
        if kind == "standard" and ctx is not None and what in ("shapes", "ks"):
            # a StandardNormal ignores the VALUES of its context: every row receives standard-normal noise, whatever the context's dtype
            with torch.no_grad():
                big = obj.sample(1500, ctx, batch_size=bs) if bs is not None else obj.sample(1500, ctx)
            if not big.dtype.is_floating_point:
                res.fail("sample_dtype", site, "samples under a %s context have dtype %s" % (ctx.dtype, big.dtype), ctx_dtype=str(ctx.dtype))
                return res
            for r_ in range(big.shape[0]):
                d = ks_statistic(big[r_].reshape(-1).double().numpy(), norm_cdf)
                thr = ks_threshold(big[r_].numel())
                res.see_ratio(d, thr)
                if d > thr:
                    res.fail("context_rows_distribution", site, "StandardNormal.sample(1500, context %s): row %d is not standard normal (KS %.4f > %.4f)" % (
                        ctx.dtype, r_, d, thr), ctx_dtype=str(ctx.dtype))
                    return res
        if what == "ks" and kind == "standard" and ctx is None:
            with torch.no_grad():
                big = obj.sample(4000, None, batch_size=[7, 64, 999, 4001][case["seed"] % 4])
            d = ks_statistic(big.reshape(-1).double().numpy(), norm_cdf)
            thr = ks_threshold(big.numel())
            res.see_ratio(d, thr)
            if list(big.shape) != [4000] + ev:
                res.fail("sample_shape", site, "large batched sample shape %s" % list(big.shape))
            elif d > thr:
                res.fail("batched_distribution", site, "KS distance of batched StandardNormal samples from N(0,1) is %.4f > %.4f" % (d, thr))
    return res
