"""C20 - tensor and mask utilities obey their algebraic specifications (numpy reference models)."""
import itertools
import math

import numpy as np
import torch
from hypothesis import strategies as st

from vf.core import CaseResult, dtype_mode

PROPERTY = "C20"
RULE = ("Every helper of nflows.utils is called on (a) an exhaustive grid: all shapes with 1-4 dimensions of size 1-3 "
        "(0-3 for sum_except_batch) x integer arguments 1-4 x invalid integer arguments, all mask sizes 1-40, all ints in "
        "[-64, 4200] for the predicates, and (b) Hypothesis-generated values/shapes/dtypes; each result is compared with a "
        "numpy reference written from the docstring and every tensor argument is compared bit-for-bit with a pre-call "
        "clone. Non-trivial: the tensor has >= 2 elements and the integer argument is >= 2, or (predicates) the argument is "
        "not a plain positive int, or (searchsorted) an input sits exactly on a knot. List arguments (split_leading_dim shape) must come back "
        "unchanged. sum_except_batch also on int64/int32/uint8/bool tensors (torch.sum's promotion: exact integer sums). Distinct = distinct case JSON.")
ASSUMPTIONS = ["numpy repeat/reshape/sum/cbrt/slogdet/searchsorted are correct reference models",
               "searchsorted inputs within eps of the last knot but not equal to it are unspecified and not generated"]
EXHAUSTIVE = {"quick": True, "thorough": True}
EXPLANATION = ("exhaustive over the named small-shape grid only; generated part adds larger sizes, float values, dtypes")


def budget(tier):
    return {"examples": 6000 if tier == "quick" else 120000, "wall_s": 100 if tier == "quick" else 900}


def _bits(t):
    return t.detach().clone().contiguous().reshape(-1).view(torch.uint8) if t.numel() else t.detach().clone()


def _same_bits(a_bits, t):
    b = _bits(t)
    return a_bits.shape == b.shape and bool(torch.equal(a_bits, b))


def _mk(shape, seed, dtype="float32", ints=False):
    n = int(np.prod(shape)) if len(shape) else 1
    rng = np.random.RandomState(seed % (2 ** 31))
    if ints:
        a = rng.randint(-9, 10, size=n).astype(np.float64)
    else:
        a = rng.standard_normal(n) * 3
    return torch.tensor(a.reshape(shape), dtype=getattr(torch, dtype))


BAD_INTS = [0, -1, 2.0, "2", None]
SHAPES = [s for d in range(1, 5) for s in itertools.product(range(1, 4), repeat=d)]
SHAPES0 = [s for d in range(1, 4) for s in itertools.product(range(0, 4), repeat=d)]


def enumerate_cases(tier):
    cases = []
    for i, s in enumerate(SHAPES):
        for n in (1, 2, 3, 4):
            cases.append({"fn": "tile", "shape": list(s), "n": n, "seed": i})
            cases.append({"fn": "repeat_rows", "shape": list(s), "n": n, "seed": i})
        for k in range(1, len(s) + 1):
            cases.append({"fn": "merge_split", "shape": list(s), "k": k, "seed": i})
    for i, s in enumerate(SHAPES0):
        for k in range(0, len(s) + 1):
            cases.append({"fn": "sum_except_batch", "shape": list(s), "k": k, "seed": i})
    for fn in ("tile", "repeat_rows", "merge_bad", "sum_bad"):
        for b in BAD_INTS + [True]:
            cases.append({"fn": fn, "shape": [2, 3], "n": b, "seed": 1})
    for f in range(1, 41):
        cases.append({"fn": "mask_alt", "features": f, "even": True})
        cases.append({"fn": "mask_alt", "features": f, "even": False})
        cases.append({"fn": "mask_mid", "features": f})
        for sd in range(3):
            cases.append({"fn": "mask_rand", "features": f, "seed": sd})
    lo, hi = -64, 4200
    for a in range(lo, hi, 64):
        cases.append({"fn": "pred_range", "lo": a, "hi": min(a + 64, hi)})
    for v in [2 ** 20, 2 ** 20 + 1, 2 ** 63, 2 ** 64, 2 ** 100, -(2 ** 40), 3 * 2 ** 50]:
        cases.append({"fn": "pred", "kind": "int", "v": v})
    for kind, v in [("float", 2.0), ("float", 0.5), ("float", float("nan")), ("str", "3"), ("none", None),
                    ("bool", True), ("bool", False), ("list", [2]), ("npint", 4), ("npint", 3), ("float", -0.0),
                    ("complex", 2), ("tensor", 4)]:
        cases.append({"fn": "pred", "kind": kind, "v": v})
    for size in range(1, 9):
        for sd in range(3):
            cases.append({"fn": "random_orthogonal", "size": size, "seed": sd})
    return cases


@st.composite
def _case(draw):
    fn = draw(st.sampled_from(["tile", "repeat_rows", "merge_split", "sum_except_batch", "searchsorted", "searchsorted",
                               "cbrt", "logabsdet", "temperature", "kde", "pred", "numparams", "tensor2numpy",
                               "mask_rand", "split_shape"]))
    seed = draw(st.integers(0, 2 ** 31 - 1))
    dtype = draw(st.sampled_from(["float32", "float64", "int64", "float32"]))
    if fn in ("tile", "repeat_rows"):
        shape = draw(st.lists(st.integers(1, 6), min_size=1, max_size=4))
        return {"fn": fn, "shape": shape, "n": draw(st.integers(1, 7)), "seed": seed, "dtype": dtype,
                "view": draw(st.sampled_from(["plain", "transposed", "slice"]))}
    if fn == "merge_split":
        shape = draw(st.lists(st.integers(1, 6), min_size=1, max_size=5))
        return {"fn": fn, "shape": shape, "k": draw(st.integers(1, len(shape))), "seed": seed, "dtype": dtype}
    if fn == "split_shape":
        lead = draw(st.lists(st.integers(1, 5), min_size=1, max_size=3))
        rest = draw(st.lists(st.integers(1, 4), min_size=0, max_size=2))
        return {"fn": fn, "lead": lead, "rest": rest, "seed": seed, "minus_one": draw(st.integers(-1, len(lead) - 1))}
    if fn == "sum_except_batch":
        shape = draw(st.lists(st.integers(0, 5), min_size=1, max_size=4))
        return {"fn": fn, "shape": shape, "k": draw(st.integers(0, len(shape))), "seed": seed,
                "dtype": draw(st.sampled_from(["float64" if dtype == "int64" else dtype, "float32", "float64", "int64", "int32", "uint8", "bool"]))}
        # (masks are uint8/bool tensors and counting their entries is a sum: torch.sum's own promotion rules are the specification)
    if fn == "searchsorted":
        nb = draw(st.integers(1, 9))
        gaps = draw(st.lists(st.floats(1e-3, 2.0), min_size=nb, max_size=nb))
        start = draw(st.sampled_from([0.0, -1.0, -3.0, 0.25]))
        lead = draw(st.lists(st.integers(1, 3), min_size=0, max_size=3))
        return {"fn": fn, "gaps": gaps, "start": start, "lead": lead, "seed": seed,
                "dtype": draw(st.sampled_from(["float32", "float64"])),
                "p_knot": draw(st.sampled_from([0.0, 0.3, 0.7])),
                "xdtype": draw(st.sampled_from([None, None, "float32", "float64"]))}      # inputs in another precision than the knots
    if fn == "cbrt":
        vals = draw(st.lists(st.one_of(st.floats(-1e30, 1e30), st.sampled_from([0.0, -0.0, 1e-45, -1e-45, 1e-38, -8.0, 27.0,
                                                                                 1.0, -1.0, 1e-300])),
                             min_size=1, max_size=8))
        return {"fn": fn, "vals": vals, "dtype": draw(st.sampled_from(["float32", "float64"]))}
    if fn == "logabsdet":
        d = draw(st.one_of(st.integers(1, 6), st.sampled_from([12, 40, 64, 100, 144])))
        return {"fn": fn, "d": d, "seed": seed, "flip": draw(st.booleans()), "dtype": draw(st.sampled_from(["float64", "float32"])),
                "scale": draw(st.sampled_from([1.0, 1.0, 1e-4, 1e3, 0.05]))}
    if fn == "temperature":
        return {"fn": fn, "max_value": draw(st.floats(0.05, 200.0)), "bound": draw(st.one_of(st.none(), st.floats(0.55, 0.9999)))}
    if fn == "kde":
        return {"fn": fn, "N": draw(st.integers(1, 8)), "D": draw(st.integers(1, 3)), "M": draw(st.integers(1, 4)), "seed": seed,
                "precise": draw(st.booleans())}
    if fn == "pred":
        kind = draw(st.sampled_from(["int", "int", "float", "str", "bool", "npint"]))
        if kind == "int":
            v = draw(st.one_of(st.integers(-2 ** 70, 2 ** 70), st.integers(0, 80).map(lambda e: 2 ** e),
                               st.integers(2, 80).map(lambda e: 2 ** e - 1), st.integers(2, 80).map(lambda e: 2 ** e + 1)))
        elif kind == "float":
            v = draw(st.floats(allow_nan=False, allow_infinity=False, min_value=-1e6, max_value=1e6))
        elif kind == "str":
            v = draw(st.text(max_size=3))
        elif kind == "bool":
            v = draw(st.booleans())
        else:
            v = draw(st.integers(-100, 100))
        return {"fn": fn, "kind": kind, "v": v}
    if fn == "numparams":
        return {"fn": fn, "sizes": draw(st.lists(st.integers(1, 5), min_size=1, max_size=4)), "freeze": draw(st.booleans())}
    if fn == "tensor2numpy":
        return {"fn": fn, "shape": draw(st.lists(st.integers(0, 4), min_size=0, max_size=3)), "seed": seed,
                "grad": draw(st.booleans())}
    if fn == "mask_rand":
        return {"fn": fn, "features": draw(st.integers(1, 200)), "seed": seed}
    raise AssertionError(fn)


def case_strategy(tier):
    return _case()


def _view(t, how):
    if how == "transposed" and t.dim() >= 2:
        return t.transpose(0, 1).contiguous().transpose(0, 1)
    if how == "slice":
        big = torch.cat([t, t], dim=0)
        return big[: t.shape[0]]
    return t


def _expect_type_error(res, site, f):
    try:
        f()
    except TypeError:
        return
    except Exception as e:  # wrong exception type
        res.fail("wrong_exception", site, "expected TypeError, got %r" % (e,))
        return
    res.fail("missing_rejection", site, "expected TypeError, call returned")


def run_case(case):
    from nflows.utils import torchutils as tu
    from nflows.utils import typechecks as tc
    import nflows.utils as U

    res = CaseResult(labels=["fn:" + case["fn"]])
    fn = case["fn"]

    if fn in ("tile", "repeat_rows") and not (isinstance(case["n"], int) and not isinstance(case["n"], bool) and case["n"] > 0):
        x = _mk(case["shape"], case["seed"])
        res.nontrivial = True
        res.labels.append("bad_arg")
        if case["n"] is True:  # bool is an int subclass: behaviour not specified, only must not corrupt input
            return res
        _expect_type_error(res, fn, lambda: getattr(U, fn)(x, case["n"]))
        return res
    if fn == "merge_bad":
        x = _mk(case["shape"], case["seed"])
        res.nontrivial = True
        if case["n"] is True:
            return res
        _expect_type_error(res, "merge_leading_dims", lambda: U.merge_leading_dims(x, case["n"]))
        try:
            U.merge_leading_dims(x, 5)
            res.fail("missing_rejection", "merge_leading_dims", "num_dims > dim accepted")
        except ValueError:
            pass
        return res
    if fn == "sum_bad":
        x = _mk(case["shape"], case["seed"])
        res.nontrivial = True
        if case["n"] in (0, True):
            return res
        _expect_type_error(res, "sum_except_batch", lambda: U.sum_except_batch(x, case["n"]))
        return res

    if fn == "tile":
        dt = case.get("dtype", "float32")
        x = _view(_mk(case["shape"], case["seed"], dt, ints=dt.startswith("int")), case.get("view", "plain"))
        before = _bits(x)
        out = U.tile(x, case["n"])
        ref = np.repeat(x.numpy().ravel(), case["n"])
        if tuple(out.shape) != ref.shape or not np.array_equal(out.numpy(), ref):
            res.fail("wrong_value", "tile", "tile != np.repeat(ravel, n): got %s want %s" % (out.tolist()[:12], ref.tolist()[:12]))
        if not _same_bits(before, x):
            res.fail("arg_mutated", "tile", "argument changed")
        res.nontrivial = x.numel() >= 2 and case["n"] >= 2
        return res

    if fn == "repeat_rows":
        dt = case.get("dtype", "float32")
        x = _view(_mk(case["shape"], case["seed"], dt, ints=dt.startswith("int")), case.get("view", "plain"))
        before = _bits(x)
        out = U.repeat_rows(x, case["n"])
        ref = np.repeat(x.numpy(), case["n"], axis=0)
        if tuple(out.shape) != ref.shape or not np.array_equal(out.numpy(), ref):
            res.fail("wrong_value", "repeat_rows", "repeat_rows != np.repeat(x, n, 0): shape %s vs %s" % (tuple(out.shape), ref.shape))
        if not _same_bits(before, x):
            res.fail("arg_mutated", "repeat_rows", "argument changed")
        res.nontrivial = x.shape[0] >= 2 and case["n"] >= 2
        return res

    if fn == "merge_split":
        x = _mk(case["shape"], case["seed"], case.get("dtype", "float32"), ints=case.get("dtype", "f").startswith("int"))
        before = _bits(x)
        k = case["k"]
        m = U.merge_leading_dims(x, k)
        ref = x.numpy().reshape((-1,) + tuple(case["shape"][k:]))
        if tuple(m.shape) != ref.shape or not np.array_equal(m.numpy(), ref):
            res.fail("wrong_value", "merge_leading_dims", "merge != numpy reshape")
        shape_arg = list(case["shape"][:k])       # a list the caller keeps: it must come back unchanged
        back = U.split_leading_dim(m, shape_arg)
        if shape_arg != list(case["shape"][:k]):
            res.fail("arg_mutated", "split_leading_dim", "the shape argument (a list) was modified: %r -> %r" % (list(case["shape"][:k]), shape_arg))
            return res
        for alt in (tuple(case["shape"][:k]), torch.Size(case["shape"][:k])):
            if not torch.equal(U.split_leading_dim(m, alt), back):
                res.fail("wrong_value", "split_leading_dim", "result depends on the type of the shape argument (%s)" % type(alt).__name__)
                return res
        if tuple(back.shape) != tuple(x.shape) or not torch.equal(back, x):
            res.fail("not_inverse", "split_leading_dim", "split(merge(x)) != x")
        again = U.merge_leading_dims(back, k)
        if not torch.equal(again, m):
            res.fail("not_inverse", "merge_leading_dims", "merge(split(y)) != y")
        if not _same_bits(before, x):
            res.fail("arg_mutated", "merge_leading_dims", "argument changed")
        res.nontrivial = k >= 2 and x.numel() >= 2
        return res

    if fn == "split_shape":
        lead, rest = case["lead"], case["rest"]
        n = int(np.prod(lead))
        x = _mk([n] + rest, case["seed"])
        shape = list(lead)
        if case["minus_one"] >= 0:
            shape[case["minus_one"]] = -1
        out = U.split_leading_dim(x, shape)
        ref = x.numpy().reshape(tuple(lead) + tuple(rest))
        if tuple(out.shape) != ref.shape or not np.array_equal(out.numpy(), ref):
            res.fail("wrong_value", "split_leading_dim", "split != numpy reshape")
        res.nontrivial = len(lead) >= 2 and n >= 2
        return res

    if fn == "sum_except_batch":
        dt_ = case.get("dtype", "float32")
        if dt_ in ("uint8", "bool", "int32", "int64"):
            x = _mk(case["shape"], case["seed"], "float64", ints=True).abs().mul(28 if dt_ == "uint8" else 1).to(getattr(torch, dt_))
        else:
            x = _mk(case["shape"], case["seed"], dt_, ints=True)
        before = _bits(x)
        k = case["k"]
        out = U.sum_except_batch(x, k)
        axes = tuple(range(k, len(case["shape"])))
        ref = x.numpy().sum(axis=axes) if axes else x.numpy()
        if dt_ in ("uint8", "bool", "int32", "int64") and axes:
            ref = x.numpy().astype(np.int64).sum(axis=axes)
        if tuple(out.shape) != tuple(case["shape"][:k]):
            res.fail("wrong_shape", "sum_except_batch", "shape %s, want %s (batch dims must be preserved)" % (
                tuple(out.shape), tuple(case["shape"][:k])), ndim=len(case["shape"]), k=k)
        elif not np.array_equal(out.numpy(), ref):
            res.fail("wrong_value", "sum_except_batch", "sum differs from numpy")
        if not _same_bits(before, x):
            res.fail("arg_mutated", "sum_except_batch", "argument changed")
        res.nontrivial = x.numel() >= 2 and len(case["shape"]) >= 2
        if k == len(case["shape"]):
            res.labels.append("k==ndim")
        return res

    if fn == "searchsorted":
        dt = getattr(torch, case["dtype"])
        knots = np.concatenate([[case["start"]], case["start"] + np.cumsum(case["gaps"])])
        kt = torch.tensor(knots, dtype=dt)
        knots = kt.double().numpy()
        if not np.all(np.diff(knots) > 0):
            return res
        rng = np.random.RandomState(case["seed"] % (2 ** 31))
        lead = tuple(case["lead"])
        n = int(np.prod(lead)) if lead else 1
        u = rng.uniform(size=n)
        xs = knots[0] + u * (knots[-1] - knots[0])
        onknot = rng.uniform(size=n) < case["p_knot"]
        pick = rng.randint(0, len(knots), size=n)
        xs = np.where(onknot, knots[pick], xs)
        xt = torch.tensor(xs.reshape(lead), dtype=getattr(torch, case["xdtype"]) if case.get("xdtype") else dt)
        xs = xt.double().numpy().ravel()        # (comparison in exact arithmetic: float32(0.7) lies below the float64 knot 0.7)
        if xt.dtype != dt:
            res.labels.append("mixed_precision")
        # inputs strictly inside (last knot - eps, last knot) are fine; == last knot belongs to the last bin (closed)
        bl = kt.expand(*lead, len(knots)).clone() if lead else kt.clone()
        before_b, before_x = _bits(bl), _bits(xt)
        out = U.searchsorted(bl, xt)
        ref = np.searchsorted(knots, xs, side="right") - 1
        last = xs >= knots[-1]
        ref = np.where(last, len(knots) - 2, ref)
        # eps is added to the last knot in the working dtype; if it is absorbed there the closed-last-bin promise
        # cannot be observed through this helper -> those elements are not asserted here (C17 covers the splines)
        absorbed = float((kt[-1] + 1e-6).double()) <= knots[-1]
        ok = np.ones(n, bool) if not absorbed else ~last
        got = out.numpy().ravel()
        if tuple(out.shape) != lead:
            res.fail("wrong_shape", "searchsorted", "shape %s want %s" % (tuple(out.shape), lead))
        elif not np.array_equal(got[ok], ref[ok]):
            i = int(np.nonzero(got[ok] != ref[ok])[0][0])
            res.fail("wrong_value", "searchsorted", "bin index %s want %s at x=%r knots=%s" % (got[ok][i], ref[ok][i], xs[ok][i], knots.tolist()))
        if not _same_bits(before_b, bl):
            res.fail("arg_mutated", "searchsorted", "bin_locations modified in place (last knot %r -> %r)" % (
                float(kt[-1]), float(bl.reshape(-1)[-1])))
        if not _same_bits(before_x, xt):
            res.fail("arg_mutated", "searchsorted", "inputs modified in place")
        res.nontrivial = bool(onknot.any()) and len(knots) >= 3
        res.labels.append("on_knot" if onknot.any() else "interior")
        return res

    if fn == "cbrt":
        dt = getattr(torch, case["dtype"])
        x = torch.tensor(case["vals"], dtype=torch.float64).to(dt)
        before = _bits(x)
        out = U.cbrt(x)
        xv = x.double().numpy()
        ref = np.cbrt(xv)
        u = 2.0 ** -23 if case["dtype"] == "float32" else 2.0 ** -52
        with np.errstate(divide="ignore"):
            tol = 16 * u * (1 + np.abs(np.log(np.abs(xv) + 1e-320))) * np.abs(ref) + 1e-310
        got = out.double().numpy()
        bad = ~(np.abs(got - ref) <= tol)
        if out.dtype != dt:
            res.fail("wrong_dtype", "cbrt", "dtype %s" % out.dtype)
        if bad.any():
            i = int(np.nonzero(bad)[0][0])
            res.fail("wrong_value", "cbrt", "cbrt(%r)=%r want %r" % (xv[i], got[i], ref[i]), measured=abs(got[i] - ref[i]), tol=tol[i])
        if not _same_bits(before, x):
            res.fail("arg_mutated", "cbrt", "argument changed")
        res.nontrivial = bool((xv < 0).any() or (xv == 0).any())
        return res

    if fn == "logabsdet":
        # |det| itself may under/overflow the dtype (144x144 float32, or 1e-4*I_12) while log|det| is a modest number
        dtn = case.get("dtype", "float64")
        with dtype_mode(dtn == "float64"):
            rng = np.random.RandomState(case["seed"] % (2 ** 31))
            d = case["d"]
            sc = case.get("scale", 1.0)
            a = rng.uniform(-2, 2, size=(d, d)) / max(1.0, np.sqrt(d) / 2) * sc
            if d > 6:
                a = a + np.eye(d) * sc
            if case["flip"] and d >= 1:
                a[0] = -a[0]
            x = torch.tensor(a, dtype=getattr(torch, dtn))
            a = x.double().numpy()
            if np.linalg.cond(a) > (1e6 if dtn == "float64" else 1e3):
                res.inconclusive = 1
                return res
            before = _bits(x)
            out = U.logabsdet(x)
            sign, ref = np.linalg.slogdet(a)
            tol = (1e-9 if dtn == "float64" else 2e-5 * max(1, d)) * (1 + abs(ref))
            if not np.isfinite(float(out)) or abs(float(out) - ref) > tol:
                res.fail("wrong_value", "logabsdet", "logabsdet=%r want %r (%dx%d %s, scale %g)" % (float(out), ref, d, d, dtn, sc),
                         measured=abs(float(out) - ref) if np.isfinite(float(out)) else float("inf"), tol=tol)
            if not _same_bits(before, x):
                res.fail("arg_mutated", "logabsdet", "argument changed")
            res.nontrivial = d >= 2
            res.labels += ["det<0" if sign < 0 else "det>0", "size:%s" % ("large" if d > 6 else "small")]
        return res

    if fn == "temperature":
        mv, b = case["max_value"], case["bound"]
        t = U.get_temperature(mv) if b is None else U.get_temperature(mv, b)
        bb = 1 - 1e-3 if b is None else b
        want = min(1.0, math.log(bb / (1 - bb)) / mv)
        tv = float(t)
        if abs(tv - want) > 2e-5 * (1 + abs(want)):
            res.fail("wrong_value", "get_temperature", "T=%r want %r" % (tv, want))
        if want < 1 and abs(1 / (1 + math.exp(-tv * mv)) - bb) > 1e-5:
            res.fail("wrong_value", "get_temperature", "sigmoid(T*max)=%r != bound %r" % (1 / (1 + math.exp(-tv * mv)), bb))
        res.nontrivial = want < 1
        res.labels.append("capped" if want >= 1 else "uncapped")
        return res

    if fn == "kde":
        with dtype_mode(case["precise"]):
            N, D, M = case["N"], case["D"], case["M"]
            s = _mk([N, D], case["seed"], "float64" if case["precise"] else "float32")
            q = _mk([M, 1, D], case["seed"] + 1, "float64" if case["precise"] else "float32")
            bs, bq = _bits(s), _bits(q)
            out = U.gaussian_kde_log_eval(s, q)
            std = N ** (-1.0 / (D + 4))
            sn, qn = s.double().numpy(), q.double().numpy()[:, 0, :]
            d2 = ((qn[:, None, :] - sn[None, :, :]) ** 2).sum(-1)
            logn = -0.5 * d2 / std ** 2 - 0.5 * D * math.log(2 * math.pi) - D * math.log(std)
            mx = logn.max(1, keepdims=True)
            ref = (mx + np.log(np.exp(logn - mx).mean(1, keepdims=True)))[:, 0]
            tol = (1e-9 if case["precise"] else 2e-4) * (1 + np.abs(ref))
            got = out.double().numpy()
            if got.shape != ref.shape:
                res.fail("wrong_shape", "gaussian_kde_log_eval", "shape %s want %s" % (got.shape, ref.shape))
            elif (np.abs(got - ref) > tol).any():
                res.fail("wrong_value", "gaussian_kde_log_eval", "kde %s want %s" % (got.tolist(), ref.tolist()))
            if not (_same_bits(bs, s) and _same_bits(bq, q)):
                res.fail("arg_mutated", "gaussian_kde_log_eval", "argument changed")
            res.nontrivial = N >= 2
        return res

    if fn in ("pred", "pred_range"):
        if fn == "pred_range":
            vals = [("int", v) for v in range(case["lo"], case["hi"])]
        else:
            vals = [(case["kind"], case["v"])]
        for kind, v in vals:
            if kind == "npint":
                v = np.int64(v)
            elif kind == "complex":
                v = complex(v)
            elif kind == "tensor":
                v = torch.tensor(v)
            got = (tc.is_bool(v), tc.is_int(v), tc.is_positive_int(v), tc.is_nonnegative_int(v), tc.is_power_of_two(v))
            if kind == "int":
                want = (False, True, v > 0, v >= 0, v > 0 and bin(v).count("1") == 1)
            elif kind == "bool":
                want = (True, None, None, None, None)  # bool is an int subclass: int-ness left unspecified
            elif kind in ("npint", "tensor"):
                want = (False, None, None, None, None)  # numpy/tensor ints: not specified
            else:
                want = (False, False, False, False, False)
            for name, g, w in zip(("is_bool", "is_int", "is_positive_int", "is_nonnegative_int", "is_power_of_two"), got, want):
                if w is None:
                    continue
                if bool(g) != w or not isinstance(g, (bool, np.bool_)):
                    res.fail("wrong_value", name, "%s(%r)=%r want %r" % (name, v, g, w))
        res.nontrivial = True
        res.labels.append("kind:" + (case.get("kind") or "range"))
        return res

    if fn == "numparams":
        layers = [torch.nn.Linear(a, b) for a, b in zip(case["sizes"], case["sizes"][1:] + [2])]
        m = torch.nn.Sequential(*layers)
        if case["freeze"]:
            m.register_buffer("buf", torch.zeros(7))
        want = sum(int(np.prod(p.shape)) for p in m.parameters())
        if U.get_num_parameters(m) != want:
            res.fail("wrong_value", "get_num_parameters", "%r want %r" % (U.get_num_parameters(m), want))
        res.nontrivial = len(layers) >= 2
        return res

    if fn == "tensor2numpy":
        x = _mk(case["shape"], case["seed"])
        if case["grad"]:
            x.requires_grad_(True)
        out = U.tensor2numpy(x)
        if not isinstance(out, np.ndarray) or out.shape != tuple(case["shape"]) or not np.array_equal(out, x.detach().numpy()):
            res.fail("wrong_value", "tensor2numpy", "mismatch")
        res.nontrivial = x.numel() >= 2 and case["grad"]
        return res

    if fn == "mask_alt":
        f = case["features"]
        m = U.create_alternating_binary_mask(f, even=case["even"])
        want = np.array([(1 if (i % 2 == 0) == case["even"] else 0) for i in range(f)])
        if tuple(m.shape) != (f,) or not np.array_equal(m.numpy().astype(int), want):
            res.fail("wrong_value", "create_alternating_binary_mask", "got %s want %s" % (m.tolist(), want.tolist()))
        res.nontrivial = f >= 2
        return res
    if fn == "mask_mid":
        f = case["features"]
        m = U.create_mid_split_binary_mask(f)
        h = (f + 1) // 2
        want = np.array([1] * h + [0] * (f - h))
        if tuple(m.shape) != (f,) or not np.array_equal(m.numpy().astype(int), want):
            res.fail("wrong_value", "create_mid_split_binary_mask", "got %s want %s" % (m.tolist(), want.tolist()))
        res.nontrivial = f >= 2
        return res
    if fn == "mask_rand":
        f = case["features"]
        torch.manual_seed(case["seed"])
        m = U.create_random_binary_mask(f)
        v = m.numpy().astype(int)
        if tuple(m.shape) != (f,) or set(np.unique(v)) - {0, 1} or int(v.sum()) != (f + 1) // 2:
            res.fail("wrong_value", "create_random_binary_mask", "got %s: want %d ones among %d" % (v.tolist(), (f + 1) // 2, f))
        res.nontrivial = f >= 2
        return res

    if fn == "random_orthogonal":
        torch.manual_seed(case["seed"])
        n = case["size"]
        q = U.random_orthogonal(n)
        if tuple(q.shape) != (n, n):
            res.fail("wrong_shape", "random_orthogonal", "shape %s" % (tuple(q.shape),))
        else:
            err = float((q.double().t() @ q.double() - torch.eye(n, dtype=torch.float64)).abs().max())
            res.see_ratio(err, 1e-4)
            if not err <= 1e-4:
                res.fail("wrong_value", "random_orthogonal", "Q^T Q - I = %g" % err, measured=err, tol=1e-4)
        res.nontrivial = n >= 2
        return res

    raise AssertionError("unknown fn %r" % fn)
