"""C10 - weight caching in linear transforms is transparent over every history (op sequences vs an uncached twin)."""
import copy

import numpy as np
import torch
from hypothesis import strategies as st

from vf.core import CaseResult, dtype_mode

PROPERTY = "C10"
RULE = ("A history (3-25 operations, drawn and shrunk as one list) over {train(), eval(), use_cache(True/False), forward, "
        "inverse, SGD step in training mode, load_state_dict from a perturbed fresh instance, .double()/.float(), "
        "forward+backward to the inputs (possibly repeated), deepcopy-and-continue} on NaiveLinear / LULinear / QRLinear / "
        "SVDLinear / OneByOneConvolution with 1-4 features. Oracle after EVERY forward/inverse: a fresh twin built with "
        "using_cache=False, loaded with the subject's current state_dict() and dtype, returns the same outputs and log-dets "
        "(1e-10 relative in float64, 2e-5 in float32); anything the twin supports (repeated backward, dtype change) must "
        "not raise on the subject; input gradients agree. Non-trivial: a parameter-changing step (SGD/load/dtype) happens "
        "after a cached call and before another call. Calls also on single rows and non-square images; results may be modified in place by "
        "the caller (as coupling layers do) without raising and without reaching the cache. Every SGD step is repeated on a never-cached copy "
        "and must move the parameters alike (1e-9); state dicts are loaded directly or through a containing CompositeTransform. "
        "Distinct = distinct case JSON.")
ASSUMPTIONS = ["parameter updates are generated only in training mode (the property lists 'parameter update in training mode')",
               "the twin is built through the public constructor + load_state_dict only"]
EXPLANATION = "generated histories; not exhaustive"

CLASSES = ["naive", "lu", "qr", "svd", "conv"]


def budget(tier):
    return {"examples": 12000 if tier == "quick" else 150000, "wall_s": 100 if tier == "quick" else 1500}


@st.composite
def _op(draw):
    k = draw(st.sampled_from(["train", "eval", "eval", "cache_on", "cache_on", "cache_off", "forward", "forward", "forward", "inverse",
                              "inverse", "sgd", "load", "double", "float", "fwd_bwd", "fwd_bwd", "inv_bwd", "deepcopy", "fwd_inplace", "inv_inplace"]))
    op = {"op": k}
    if k in ("forward", "inverse", "fwd_bwd", "inv_bwd", "sgd", "load", "fwd_inplace", "inv_inplace"):
        op["seed"] = draw(st.integers(0, 1000))
    if k == "sgd":
        op["lr"] = draw(st.sampled_from([0.1, 0.5, 0.01]))
    if k == "load":
        op["via"] = draw(st.booleans())
    return op


@st.composite
def _phase(draw):
    """A phase = switches (cache flag / mode, in either order), an optional parameter change, then 1-3 calls.  Histories
    built from phases reach 'cached call -> switches -> update -> switches -> call' patterns far more often than
    uniformly drawn op lists."""
    ops = []
    sw = []
    c = draw(st.sampled_from([None, "cache_on", "cache_on", "cache_off"]))
    m = draw(st.sampled_from([None, "train", "eval", "eval"]))
    if c:
        sw.append({"op": c})
    if m:
        sw.append({"op": m})
    if len(sw) == 2 and draw(st.booleans()):
        sw.reverse()
    ops += sw
    ch = draw(st.sampled_from([None, None, "sgd", "sgd", "load", "double", "float", "deepcopy"]))
    if ch:
        op = {"op": ch}
        if ch in ("sgd", "load"):
            op["seed"] = draw(st.integers(0, 1000))
        if ch == "sgd":
            op["lr"] = draw(st.sampled_from([0.1, 0.5]))
        if ch == "load":
            op["via"] = draw(st.booleans())
        ops.append(op)
        # switches may also come after the change
        if draw(st.booleans()):
            c2 = draw(st.sampled_from(["cache_on", "cache_off", "eval", "train"]))
            ops.append({"op": c2})
    for _ in range(draw(st.integers(0, 2))):
        ops.append({"op": draw(st.sampled_from(["forward", "inverse", "forward", "fwd_bwd", "inv_bwd", "fwd_inplace", "inv_inplace"])), "seed": draw(st.integers(0, 1000))})
    return ops


@st.composite
def _case(draw):
    cls = draw(st.sampled_from(CLASSES))
    f = draw(st.integers(1, 4))
    if draw(st.booleans()):
        ops = [o for ph in draw(st.lists(_phase(), min_size=2, max_size=7)) for o in ph]
    else:
        ops = draw(st.lists(_op(), min_size=3, max_size=25))
    if not ops:
        ops = [{"op": "forward", "seed": 0}]
    return {"cls": cls, "features": f, "nh": 2 * draw(st.integers(1, 2)) if cls == "svd" else draw(st.integers(1, f + 1)),
            "init_cache": draw(st.booleans()), "identity_init": draw(st.booleans()), "seed": draw(st.integers(0, 10 ** 6)),
            "ops": draw(st.sampled_from([[], [{"op": "eval"}, {"op": "cache_on"}, {"op": "forward", "seed": 1}],
                                          [{"op": "cache_on"}, {"op": "eval"}, {"op": "inverse", "seed": 2}]])) + ops}


def case_strategy(tier):
    return _case()


def _build(case, using_cache, seed_shift=0):
    from nflows import transforms as T

    f = case["features"]
    g = torch.random.get_rng_state()
    torch.manual_seed(case["seed"] + seed_shift)
    try:
        if case["cls"] == "naive":
            m = T.NaiveLinear(f, orthogonal_initialization=case["identity_init"], using_cache=using_cache)
        elif case["cls"] == "lu":
            m = T.LULinear(f, using_cache=using_cache, identity_init=case["identity_init"])
        elif case["cls"] == "qr":
            m = T.QRLinear(f, num_householder=case["nh"], using_cache=using_cache)
        elif case["cls"] == "svd":
            m = T.SVDLinear(f, num_householder=case["nh"], using_cache=using_cache, identity_init=case["identity_init"])
        else:
            m = T.OneByOneConvolution(f, using_cache=using_cache, identity_init=case["identity_init"])
    finally:
        torch.random.set_rng_state(g)
    return m


def _perturb(m, seed, scale=0.4):
    g = torch.Generator().manual_seed(seed)
    with torch.no_grad():
        for p in m.parameters():
            p.add_(torch.randn(p.shape, generator=g, dtype=torch.float64).to(p.dtype) * scale)
    return m


def _inputs(case, seed, dtype):
    g = torch.Generator().manual_seed(seed)
    f = case["features"]
    rows = [3, 1, 5][seed % 3]                              # also single-row batches
    hw = [[2, 2], [1, 3], [4, 7], [3, 1]][seed % 4]         # also non-square images
    shape = [rows, f] + hw if case["cls"] == "conv" else [rows, f]
    return torch.randn(shape, generator=g, dtype=torch.float64).to(dtype)


def run_case(case):
    res = CaseResult()
    site = {"naive": "NaiveLinear", "lu": "LULinear", "qr": "QRLinear", "svd": "SVDLinear", "conv": "OneByOneConvolution"}[case["cls"]]
    res.labels.append("cls:" + case["cls"])
    with dtype_mode(True):
        subj = _perturb(_build(case, case["init_cache"]), case["seed"] + 1)
        model = {"training": True, "cache": case["init_cache"], "dtype": torch.float64}
        cached_call_since_change = False   # a call that may have filled the cache
        stale_window = False               # parameters changed after such a call
        hist = []

        def twin_of():
            t = _build(case, False, seed_shift=99).to(model["dtype"])
            t.load_state_dict(subj.state_dict())
            t.train(model["training"])
            return t

        for step, op in enumerate(case["ops"]):
            k = op["op"]
            hist.append(k)
            try:
                if k == "train":
                    subj.train()
                    model["training"] = True
                elif k == "eval":
                    subj.eval()
                    model["training"] = False
                elif k in ("cache_on", "cache_off"):
                    subj.use_cache(k == "cache_on")
                    model["cache"] = k == "cache_on"
                elif k == "sgd":
                    if not model["training"]:
                        continue
                    opt = torch.optim.SGD(subj.parameters(), lr=op["lr"])
                    x = _inputs(case, op["seed"], model["dtype"])
                    # the same training step on a copy that has never seen a cache: whatever the cache did earlier in this history
                    # (flags of parameters, graphs kept alive) must not change what an optimiser step does
                    tws = twin_of()
                    opt_t = torch.optim.SGD(tws.parameters(), lr=op["lr"])
                    yt_, ldt_ = tws(x)
                    (yt_.pow(2).mean() + 0.1 * ldt_.mean()).backward()
                    opt_t.step()
                    subj.zero_grad()            # (gradients left over from earlier backward ops of this history are not part of the step)
                    y, ld = subj(x)
                    (y.pow(2).mean() + 0.1 * ld.mean()).backward()
                    opt.step()
                    opt.zero_grad()
                    ptol = 1e-9 if model["dtype"] == torch.float64 else 1e-4
                    for (nm_, ps_), (_, pt_) in zip(subj.named_parameters(), tws.named_parameters()):
                        if pt_.numel() > 0 and bool(torch.isfinite(pt_).all()) and bool(torch.isfinite(ps_).all()):
                            dp_ = float((ps_.detach() - pt_.detach()).abs().max())
                            if dp_ > ptol * (1 + float(pt_.detach().abs().max())):
                                res.fail("training_step_differs", site, "step %d: after one SGD step parameter %s differs by %.3g from the same step on a "
                                         "never-cached copy; history=%s" % (step, nm_, dp_, hist), measured=dp_, tol=ptol, param=nm_.split(".")[-1])
                                res.nontrivial = True
                                return res
                    with torch.no_grad():
                        w_ok = bool(torch.isfinite(subj.weight()).all()) and bool(torch.isfinite(subj.logabsdet()).all())
                    if not w_ok or not all(bool(torch.isfinite(p_).all()) for p_ in subj.parameters()):
                        res.inconclusive += 1     # the drawn learning rate made the update diverge: nothing left to compare
                        res.labels.append("diverged")
                        return res
                    if cached_call_since_change:
                        stale_window = True
                elif k == "load":
                    donor = _perturb(_build(case, False, seed_shift=op["seed"] + 7), op["seed"] + 3, 0.6).to(model["dtype"])
                    if op.get("via"):
                        # the usual way a checkpoint arrives: through the module that contains the transform
                        from nflows import transforms as T_
                        T_.CompositeTransform([subj]).load_state_dict({"_transforms.0." + k_: v_ for k_, v_ in donor.state_dict().items()})
                    else:
                        subj.load_state_dict(donor.state_dict())
                    if cached_call_since_change:
                        stale_window = True
                elif k in ("double", "float"):
                    dt = torch.float64 if k == "double" else torch.float32
                    subj = subj.double() if k == "double" else subj.float()
                    if dt != model["dtype"] and cached_call_since_change:
                        stale_window = True
                    model["dtype"] = dt
                elif k == "deepcopy":
                    subj = copy.deepcopy(subj)
                elif k in ("forward", "inverse", "fwd_bwd", "inv_bwd", "fwd_inplace", "inv_inplace"):
                    inv = k in ("inverse", "inv_bwd", "inv_inplace")
                    x = _inputs(case, op["seed"], model["dtype"])
                    tw = twin_of()
                    tol = (1e-10 if model["dtype"] == torch.float64 else 2e-5)
                    reps = 2 if k.endswith("bwd") else 1
                    for rep in range(reps):
                        xs = x.clone().requires_grad_(k.endswith("bwd"))
                        xt = x.clone().requires_grad_(k.endswith("bwd"))
                        ys, ls = (subj.inverse(xs) if inv else subj(xs))
                        yt, lt = (tw.inverse(xt) if inv else tw(xt))
                        scale = 1 + float(yt.abs().max())
                        kap = 1.0
                        e1, e2 = float((ys - yt).abs().max()), float((ls - lt).abs().max())
                        if ys.dtype != yt.dtype or ls.dtype != lt.dtype:
                            res.fail("dtype_mismatch", site, "cached call returns %s/%s, uncached %s/%s after %s" % (ys.dtype, ls.dtype, yt.dtype, lt.dtype, hist))
                            return res
                        with torch.no_grad():
                            kap = max(1.0, float(torch.linalg.cond(tw.weight().double())) if hasattr(tw, "weight") else 1.0)
                        if kap > 1e8:
                            res.inconclusive += 1
                            continue
                        res.see_ratio(max(e1 / scale, e2 / (1 + float(lt.abs().max()))), tol * kap)
                        if e1 > tol * kap * scale or e2 > tol * kap * (1 + float(lt.abs().max())):
                            res.fail("cache_not_transparent", site, "step %d (%s): cached result differs from recomputation by %.3g (outputs) / %.3g "
                                     "(log-det); history=%s" % (step, k, e1, e2, hist), measured=max(e1, e2), tol=tol * kap,
                                     history=[h for h in hist if h not in ("forward", "inverse")][-6:])
                            return res
                        if k.endswith("inplace"):
                            # results belong to the caller: accumulating into them in place (as coupling layers do with the log-det
                            # of their unconditional transform) must work as on the uncached transform and must not reach the cache
                            with torch.no_grad():
                                for t_ in (ls, lt):
                                    t_ += 1.0
                                for t_ in (ys, yt):
                                    t_.mul_(2.0)
                        if k.endswith("bwd"):
                            ys.sum().backward()
                            yt.sum().backward()
                            eg = float((xs.grad - xt.grad).abs().max())
                            if eg > tol * kap * (1 + float(xt.grad.abs().max())):
                                res.fail("input_gradient_differs", site, "step %d: d out/d in differs by %.3g; history=%s" % (step, eg, hist))
                                return res
                    if stale_window:
                        res.nontrivial = True
                        stale_window = False
                    if not model["training"] and model["cache"]:
                        cached_call_since_change = True
            except Exception as e:
                from vf.core import nflows_site
                if nflows_site(e) is None and not isinstance(e, RuntimeError):
                    raise
                # does the same operation work on an uncached twin?  then the cache broke it
                ok_on_twin = True
                try:
                    tw = twin_of()
                    if k in ("forward", "inverse", "fwd_bwd", "inv_bwd", "fwd_inplace", "inv_inplace"):
                        x = _inputs(case, op["seed"], model["dtype"])
                        for rep in range(2 if k.endswith("bwd") else 1):
                            xt = x.clone().requires_grad_(k.endswith("bwd"))
                            yt, lt_ = (tw.inverse(xt) if k in ("inverse", "inv_bwd", "inv_inplace") else tw(xt))
                            if k.endswith("inplace"):
                                with torch.no_grad():
                                    lt_ += 1.0
                                    yt.mul_(2.0)
                            if k.endswith("bwd"):
                                yt.sum().backward()
                except Exception:
                    ok_on_twin = False
                if ok_on_twin:
                    res.fail("operation_breaks_with_cache", site, "step %d (%s) raised %s: %s; history=%s" % (step, k, type(e).__name__, str(e)[:200], hist),
                             exc=type(e).__name__, op=k)
                    res.nontrivial = True
                    return res
                res.inconclusive += 1
                return res
        res.labels.append("len:%d" % (len(case["ops"]) // 5 * 5))
        if "double" in hist or "float" in hist:
            res.labels.append("dtype_change")
        if hist.count("fwd_bwd") + hist.count("inv_bwd") >= 1:
            res.labels.append("repeated_backward")
    return res
