"""C12 - batch items are evaluated independently in evaluation mode."""
import copy

import numpy as np
import torch
from hypothesis import strategies as st

from vf import zoo
from vf.core import CaseResult, dtype_mode

PROPERTY = "C12"
RULE = ("A zoo transform (any class/composite, images with H != W and C >= 2, context) or a flow over it with a StandardNormal / "
        "ConditionalDiagonalNormal / DiagonalNormal / MADE-mixture base, in evaluation mode (also freshly constructed, never "
        "trained), float32 and float64, batch of 2-6 deliberately heterogeneous rows (different magnitudes, some rows in the "
        "tails / on special points / 15 sigma outliers). For forward, inverse, log_prob and transform_to_noise: (a) row i of "
        "the batch result equals the result on row i alone; (b) a drawn permutation of the batch permutes the results; (c) "
        "appending extra rows leaves the first n results unchanged, so does repeating the rows up to a batch of 9/17/33/64. Tolerance 1e-9 relative in float64, 1e-3 in float32 (BLAS "
        "blocks differently per batch size; mixing bugs are O(1) by construction). Non-trivial: >= 2 rows whose results "
        "differ by > 1e-3 and the map is not parameter-free elementwise. Flows also with an embedding network, contexts with repeated rows in "
        "cycled order, conditioners with dropout; a difference is excused only if the evaluation reproduces itself and 16x the measured effect "
        "of an 8-ulp input perturbation explains it. Distinct = distinct case JSON.")
ASSUMPTIONS = ["training mode is out of scope (batch statistics legitimately couple rows)", "sampling is excluded (random)"]
EXPLANATION = "generated"


def budget(tier):
    return {"examples": 9000 if tier == "quick" else 250000, "wall_s": 100 if tier == "quick" else 1500}


@st.composite
def _case(draw):
    c = draw(zoo.transform_case({"regimes": ["fresh", "fresh", "small", "moderate", "nonuniform", "flatbin", "zero"], "umnn": draw(st.integers(0, 9)) == 0}))
    c["inp"] = {"n": draw(st.integers(2, 6)), "seed": draw(st.integers(0, 10 ** 6)), "special": draw(st.sampled_from([0.0, 0.3, 0.6]))}
    c["precise"] = draw(st.booleans())
    c["target"] = draw(st.sampled_from(["forward", "forward", "inverse", "log_prob", "noise"]))
    c["base"] = draw(st.sampled_from(["standard", "standard", "conditional", "diagonal", "mademog"]))
    c["outlier"] = draw(st.booleans())
    c["perm_seed"] = draw(st.integers(0, 1000))
    c["bare"] = draw(st.booleans())   # log_prob of the base distribution itself (identity transform)
    c["embed"] = draw(st.booleans())       # flows: context through an embedding network
    c["sample_first"] = draw(st.booleans())
    c["dup_ctx"] = draw(st.booleans())     # repeated context rows in cycled (unsorted) order: o0 o1 o2 o0 o1 o2
    if draw(st.integers(0, 3)) == 0:
        from vf.props.c13 import _add_dropout
        c["spec"] = _add_dropout(c["spec"], draw(st.sampled_from([0.3, 0.5])))     # inert in evaluation mode
    return c


def case_strategy(tier):
    return _case()


def _make_base(case, D, ctxk):
    from nflows import distributions as dist

    kind = case["base"]
    if kind == "conditional" and ctxk is not None:
        enc = torch.nn.Linear(ctxk, 2 * D)
        return dist.ConditionalDiagonalNormal([D], context_encoder=enc)
    if kind == "diagonal":
        d = dist.DiagonalNormal([D])
        with torch.no_grad():
            d.mean_.normal_()
            d.log_std_.normal_(std=0.3)
        return d
    if kind == "mademog":
        return dist.MADEMoG(D, max(8, D), ctxk, num_blocks=1, num_mixture_components=3, custom_initialization=True)
    return dist.StandardNormal([D])


def run_case(case):
    from nflows.flows import Flow

    res = CaseResult()
    with dtype_mode(case["precise"]):
        torch.manual_seed(case["init"]["seed"])
        b = zoo.instantiate(case)
        m = b.module
        n = case["inp"]["n"]
        ctxk = case.get("ctx")
        # inverse target: no special points (a forward image sitting on a kink of a C0 map can fall on either side of it
        # depending on last-bit differences between batch sizes, which moves the log-det by O(1) without any row mixing)
        X, special = zoo.gen_inputs(b, n + 2, case["inp"]["seed"], 0.0 if case["target"] == "inverse" else case["inp"]["special"], 1.0, dom=case["dom"])
        if case["dom"] in ("R",):
            g = torch.Generator().manual_seed(case["inp"]["seed"] + 9)
            scales = torch.tensor([0.1, 1.0, 3.0, 0.5, 2.0, 1.5, 0.3, 4.0])[: n + 2].reshape([n + 2] + [1] * (X.dim() - 1))
            X = X * scales
            if case["outlier"]:
                X[0] = X[0] * 0 + 15.0 * (1 if case["inp"]["seed"] % 2 else -1)
        ctx = zoo.gen_context(b, ctxk, n + 2, case["inp"]["seed"]) if ctxk is not None else None
        if ctx is not None and case.get("dup_ctx"):
            ctx = ctx[torch.arange(n + 2) % max(2, (n + 2) // 2)].contiguous()
            res.labels.append("dup_ctx")
        target = case["target"]
        flat_out = len(b.out_shape) == 1
        if target in ("log_prob", "noise") and (not flat_out or len(b.in_shape) != 1):
            target = "forward"
        if target == "inverse" and (not b.invertible or b.inv_via_forward or not case["precise"]):
            target = "forward"   # float32 inverses amplify BLAS-level noise by the inverse's slope: only float64 is decisive
        tol = (1e-6 if case["target"] == "inverse" else 1e-9) if case["precise"] else 5e-3
        res.labels += ["target:" + target, "dtype:%s" % ("f64" if case["precise"] else "f32"), "top:" + case["spec"]["t"],
                       "dim:%dD" % (len(case["shape"]) + 1), "ctx:%s" % (ctxk is not None)] + ["tag:" + t for t in b.tags[:3]]
        if target in ("log_prob", "noise"):
            D = b.out_shape[0]
            base = _make_base(case, D, ctxk)
            if case.get("bare") and target == "log_prob":
                from nflows.transforms import IdentityTransform
                m = IdentityTransform()
                X = torch.randn(n + 2, D, generator=torch.Generator().manual_seed(case["inp"]["seed"]))
                if case["outlier"]:
                    X[0] = 15.0 * (1 if case["inp"]["seed"] % 2 else -1)
                    X[1] = -12.0
                res.labels.append("bare_distribution")
            emb = None
            if case.get("embed") and ctxk is not None and len(b.in_shape) == 1:
                emb = torch.nn.Linear(3, ctxk)
                ctx = torch.randn(n + 2, 3, generator=torch.Generator().manual_seed(case["inp"]["seed"] + 21))
                if case.get("dup_ctx"):
                    ctx = ctx[torch.arange(n + 2) % max(2, (n + 2) // 2)].contiguous()
                res.labels.append("embedding_net")
            flow = Flow(m, base, embedding_net=emb)
            flow.eval()
            if case.get("sample_first") and case["base"] != "diagonal":
                # the flow has sampled before it is asked for densities (evaluation mode throughout)
                try:
                    with torch.no_grad():
                        flow.sample(2, ctx[:1] if ctx is not None else None)
                    res.labels.append("sampled_before")
                except Exception:
                    pass
            res.labels.append("base:" + case["base"])
            if target == "log_prob":
                f = lambda Z, C, o=None: ((o or copy.deepcopy(flow)).log_prob(Z, C),)  # noqa  (fresh copy per evaluation: state must not leak)
                shared_obj = copy.deepcopy(flow)
            else:
                f = lambda Z, C, o=None: ((o or copy.deepcopy(flow)).transform_to_noise(Z, C),)  # noqa
                shared_obj = copy.deepcopy(flow)
        elif target == "inverse":
            with torch.no_grad():
                try:
                    X, _ = m(X, ctx)
                except Exception:
                    res.inconclusive += 1
                    return res
            f = lambda Z, C, o=None: (o or copy.deepcopy(m)).inverse(Z, C)  # noqa
            shared_obj = copy.deepcopy(m)
        else:
            f = lambda Z, C, o=None: (o or copy.deepcopy(m))(Z, C)  # noqa
            shared_obj = copy.deepcopy(m)
        if not bool(torch.isfinite(X).all()):
            res.inconclusive += 1
            return res
        # saturating parts (tan near its pole, atanh near +-1, exp overflow) amplify last-bit differences between code paths
        # of different batch sizes without any row mixing: only non-saturated chains are decisive
        guard = zoo.chain_moderate_inverse(b, X, ctx, case["spec"]) if target == "inverse" else zoo.chain_moderate(b, X, ctx, case["spec"])
        if not guard:
            res.labels.append("saturating_chain")
            res.inconclusive += 1
            return res
        Xn, Cn = X[:n], (ctx[:n] if ctx is not None else None)
        with torch.no_grad():
            try:
                full = f(Xn, Cn)
            except Exception as e:
                if type(e).__name__ == "InputOutsideDomain" and target == "inverse":
                    res.inconclusive += 1   # forward image rounded out of the inverse's box: C02/C17 territory
                    return res
                raise
            if not all(bool(torch.isfinite(t).all()) for t in full):
                # a row that is finite alone must be finite in the batch (and vice versa): compare finiteness patterns
                pass
            site = type(m).__name__ if target in ("forward", "inverse") else "Flow." + ("log_prob" if target == "log_prob" else "transform_to_noise")

            noise_floor = []

            def noise():
                """relative change of the full-batch results when the inputs move by a few ulps: where the map amplifies rounding by
                1e10 (six features each squeezed by e^-7, inverted) the batched and the row-wise BLAS paths legitimately differ"""
                if not noise_floor:
                    rel = 8 * (2.2e-16 if case["precise"] else 1.2e-7)
                    worst = [0.0] * len(full)
                    try:
                        again = f0(Xn, Cn)
                        repeatable = all(torch.equal(torch.nan_to_num(u), torch.nan_to_num(v)) for u, v in zip(again, full))
                    except Exception:
                        repeatable = True
                    if not repeatable:
                        # the very same evaluation does not reproduce itself (randomness active in evaluation mode): conditioning
                        # is no excuse for that
                        noise_floor.append(worst)
                        return worst
                    for sgn in (-1.0, 1.0):
                        try:
                            pert = f0(Xn * (1 + sgn * rel), Cn * (1 + sgn * rel) if Cn is not None else None)
                        except Exception:
                            worst = [float("inf")] * len(full)
                            break
                        for k, (u, v) in enumerate(zip(pert, full)):
                            okk = torch.isfinite(u) & torch.isfinite(v)
                            if not bool(okk.all()):
                                worst[k] = float("inf")
                            elif bool(okk.any()):
                                worst[k] = max(worst[k], float(((u[okk] - v[okk]).abs() / (1 + v[okk].abs())).max()))
                    noise_floor.append(worst)
                return noise_floor[0]

            def cmp(a, bb, what):
                for k, (u, v) in enumerate(zip(a, bb)):
                    fu, fv = torch.isfinite(u), torch.isfinite(v)
                    if not torch.equal(fu, fv):
                        uu, vv = u.reshape(-1)[(fu != fv).reshape(-1)], v.reshape(-1)[(fu != fv).reshape(-1)]
                        fin = torch.where(torch.isfinite(uu), uu, vv)
                        if not case["precise"] and bool((torch.isnan(uu) | torch.isnan(vv)).all()) and bool((fin.abs() > 8).all()):
                            # float32: log of a derivative ~e^-8 or smaller whose rounding noise can flip its sign (NaN) in one
                            # code path and not the other: numerical degeneracy (C19), not row mixing
                            res.labels.append("f32_degenerate_logdet")
                            res.inconclusive += 1
                            return True
                        res.fail("batch_dependence", site, "%s: finiteness of result %d differs (e.g. %r vs %r)" % (
                            what, k, u.reshape(-1)[(fu != fv).reshape(-1)][0].item(), v.reshape(-1)[(fu != fv).reshape(-1)][0].item()),
                            what=what.split(" ")[0], target=target)
                        return False
                    ok = fu
                    if bool(ok.any()):
                        err = (u[ok] - v[ok]).abs() / (1 + v[ok].abs())
                        e = float(err.max())
                        if e > tol and e <= tol + 16 * noise()[k]:
                            res.labels.append("ill_conditioned")     # explained by rounding times the measured conditioning
                            res.inconclusive += 1
                            return True
                        res.see_ratio(e, tol)
                        if e > tol:
                            res.fail("batch_dependence", site, "%s: result %d differs by %.3g relative (tol %.1g)" % (what, k, e, tol),
                                     what=what.split(" ")[0], target=target, measured=e, tol=tol)
                            return False
                return True

            f0 = f

            def f(Z, C, o=None):  # noqa
                try:
                    return f0(Z, C, o)
                except Exception as e:
                    if type(e).__name__ == "InputOutsideDomain" and target == "inverse":
                        raise _Boundary()
                    raise
            try:
                return _compare(res, f, full, Xn, Cn, X, ctx, n, cmp, case, b, m, shared_obj)
            except _Boundary:
                res.inconclusive += 1   # an image point 1 ulp outside the inverse's box in one of the evaluations
                return res
    return res


class _Boundary(Exception):
    pass


def _compare(res, f, full, Xn, Cn, X, ctx, n, cmp, case, b, m, shared_obj):
    if True:
        if True:
            # (a) rows alone
            for i in range(n):
                alone = f(Xn[i:i + 1], Cn[i:i + 1] if Cn is not None else None)
                if not cmp([t[i:i + 1] for t in full], alone, "row-alone row %d of %d" % (i, n)):
                    return res
            # (b) permutation
            perm = torch.randperm(n, generator=torch.Generator().manual_seed(case["perm_seed"]))
            pf = f(Xn[perm], Cn[perm] if Cn is not None else None)
            if not cmp([t[perm] for t in full], pf, "permutation %s" % perm.tolist()):
                return res
            # (c) extra rows appended
            ext = f(X, ctx)
            if not cmp(full, [t[:n] for t in ext], "extra-rows appended"):
                return res
            # (c') a much larger batch (implementations may switch algorithm on the batch size): the n rows repeated cyclically
            B = [9, 17, 33, 64][case["perm_seed"] % 4]
            idx = torch.arange(B) % n
            big = f(Xn[idx], Cn[idx] if Cn is not None else None)
            if not cmp([t[idx] for t in full], big, "the same rows inside a batch of %d" % B):
                return res
            # (d) ONE object evaluated with several batch sizes in a row (no fresh copies): earlier batches must not matter
            if n >= 2:
                try:
                    f(X, ctx, shared_obj)
                    k = 1 + case["perm_seed"] % (n - 1)
                    p1 = f(Xn[:k], Cn[:k] if Cn is not None else None, shared_obj)
                    p2 = f(Xn[k:], Cn[k:] if Cn is not None else None, shared_obj)
                    joined = [torch.cat([u, v], 0) for u, v in zip(p1, p2)]
                except _Boundary:
                    raise
                except Exception as e:
                    res.fail("batch_dependence", type(shared_obj).__name__, "one object evaluated on batches of %d, %d and %d rows in a row raises %s: %s" % (
                        X.shape[0], k, n - k, type(e).__name__, str(e)[:150]), what="same-object", target=case["target"])
                    return res
                if any(u.shape != v.shape for u, v in zip(full, joined)):
                    res.fail("batch_dependence", type(shared_obj).__name__, "one object evaluated on batches of %d, %d and %d rows in a row returns shapes %s "
                             "(expected %s)" % (X.shape[0], k, n - k, [list(u.shape) for u in joined], [list(u.shape) for u in full]),
                             what="same-object", target=case["target"])
                    return res
                if not cmp(full, joined, "same-object sub-batches after a larger batch"):
                    return res
            r0 = full[0].reshape(n, -1)
            res.nontrivial = bool(((r0[0] - r0[1]).abs() > 1e-3).any()) and not (b.elementwise and not list(m.parameters()))
    return res
