"""C13 - evaluation is free of side effects on the caller's tensors and on the model."""
import copy
import json

import numpy as np
import torch
from hypothesis import strategies as st

from vf import zoo
from vf.core import CaseResult, dtype_mode

PROPERTY = "C13"
RULE = ("A zoo transform, a flow over it (StandardNormal / ConditionalDiagonalNormal / MADE-mixture base, optional embedding "
        "net) or a base distribution alone, in evaluation or training mode, float32, subjected to a drawn sequence of 2-5 "
        "calls from {forward, inverse, log_prob, sample(k), sample_and_log_prob(k), transform_to_noise, mean} (k from 1), with "
        "inputs/context presented as contiguous tensors, transposed views, slices of a larger tensor (the base is compared "
        "too) or requires_grad leaves; conditioners also with dropout > 0. Oracles: every caller tensor bit-identical to a "
        "pre-call clone; evaluation mode: every state_dict entry bit-identical after the sequence and the same call repeated "
        "under the same RNG seed returns bit-identical results; training mode: only running_mean / running_var / "
        "num_batches_tracked and ActNorm's first-forward initialisation (log_scale, shift, initialized) may change. "
        "Training flags of all sub-modules, dtypes of all parameters/buffers and non-persistent buffers are compared too. "
        "After the sequence the used object must answer like never-called deep copies on another batch size and, for trees of "
        "elementwise layers, on events with an extra leading dimension. "
        "Non-trivial: the object has parameters or buffers and >= 2 different methods are called. Distinct = distinct JSON.")
ASSUMPTIONS = ["a call that raises on an exotic presentation (e.g. .view on a non-contiguous input) is not a C13 violation; the "
               "before/after comparison is still made", "the linear cache is neither parameter nor buffer"]
EXPLANATION = "generated"

ALLOWED_TRAIN = ("running_mean", "running_var", "num_batches_tracked")


def budget(tier):
    return {"examples": 7000 if tier == "quick" else 200000, "wall_s": 100 if tier == "quick" else 1500}


def _add_dropout(spec, p):
    if isinstance(spec, dict):
        out = {k: _add_dropout(v, p) for k, v in spec.items()}
        if out.get("t", "").startswith(("ar_", "c_")):
            out["dropout"] = p
        return out
    if isinstance(spec, list):
        return [_add_dropout(v, p) for v in spec]
    return spec


@st.composite
def _case(draw):
    c = draw(zoo.transform_case({"regimes": ["fresh", "small", "moderate"], "umnn": draw(st.integers(0, 12)) == 0, "img": draw(st.booleans())}))
    if draw(st.integers(0, 2)) == 0:
        c["spec"] = _add_dropout(c["spec"], draw(st.sampled_from([0.2, 0.5])))
    c["kind"] = draw(st.sampled_from(["transform", "transform", "flow", "flow", "dist"]))
    c["base"] = draw(st.sampled_from(["standard", "conditional", "conditional_identity", "mademog"]))
    c["embed"] = draw(st.booleans())
    c["mode"] = draw(st.sampled_from(["eval", "eval", "train"]))
    c["present"] = draw(st.sampled_from(["contig", "transposed", "slice", "grad"]))
    c["present_ctx"] = draw(st.sampled_from(["contig", "slice", "grad", "transposed"]))
    c["calls"] = draw(st.lists(st.sampled_from(["forward", "inverse", "log_prob", "sample", "sample_and_log_prob", "noise", "mean"]),
                               min_size=2, max_size=5))
    c["k"] = draw(st.sampled_from([1, 1, 2, 3]))
    c["rows"] = draw(st.integers(1, 4))
    c["seed"] = draw(st.integers(0, 10 ** 6))
    c["precise"] = draw(st.sampled_from([False, False, True]))      # double-precision models and inputs as well (x.double() is x itself there)
    return c


def case_strategy(tier):
    return _case()


ELEMENTWISE = ("identity", "paffine", "exp", "tanh", "logtanh", "leakyrelu", "sigmoid", "logit", "cauchycdf", "inv_exp", "inv_tanh")


def _elementwise_only(spec):
    t = spec["t"]
    if t == "composite":
        return all(_elementwise_only(p) for p in spec["parts"])
    if t == "inverse":
        return _elementwise_only(spec["of"])
    return t in ELEMENTWISE


def _bits(t):
    return t.detach().clone()


def _same(a, b):
    return a.shape == b.shape and a.dtype == b.dtype and bool(torch.equal(a.view(torch.uint8) if a.numel() and a.dim() else a,
                                                                          b.view(torch.uint8) if b.numel() and b.dim() else b)) \
        if (a.is_contiguous() and b.is_contiguous()) else bool(torch.equal(a, b))


def _present(t, how, g):
    """returns (tensor handed to the library, list of (name, tensor, clone) to compare afterwards)"""
    if t is None:
        return None, []
    if how == "transposed" and t.dim() >= 2 and t.shape[0] > 1 and t.shape[1] > 1:
        base = t.transpose(0, 1).contiguous()
        v = base.transpose(0, 1)
        return v, [("transposed-view base", base, base.clone())]
    if how == "slice":
        big = torch.cat([t, torch.randn(t.shape, generator=g, dtype=t.dtype)], 0)
        v = big[: t.shape[0]]
        return v, [("slice base (incl. rows not passed in)", big, big.clone())]
    if how == "grad":
        v = t.clone().requires_grad_(True)
        return v, [("requires_grad leaf", v, v.detach().clone())]
    v = t.clone()
    return v, [("input", v, v.clone())]


def run_case(case):
    from nflows import distributions as dist
    from nflows.flows import Flow

    res = CaseResult()
    with dtype_mode(bool(case.get("precise", False))):
        torch.manual_seed(case["seed"])
        b = zoo.instantiate(case)
        ctxk = case.get("ctx")
        kind = case["kind"]
        flat = len(b.out_shape) == 1
        if kind in ("flow", "dist") and (not flat or len(b.in_shape) != 1):
            kind = "transform"
        g = torch.Generator().manual_seed(case["seed"] + 1)
        n = case["rows"]
        embed_in = None
        if kind == "transform":
            obj = b.module
        else:
            D = b.out_shape[0]
            base_kind = case["base"]
            cfeat = ctxk
            if base_kind in ("conditional", "conditional_identity") and ctxk is None:
                base_kind = "standard"
            if base_kind == "conditional":
                base = dist.ConditionalDiagonalNormal([D], context_encoder=torch.nn.Linear(ctxk, 2 * D))
            elif base_kind == "conditional_identity":
                base = dist.ConditionalDiagonalNormal([D])     # identity encoder: context must be [rows, 2*D]
            elif base_kind == "mademog":
                base = dist.MADEMoG(D, max(8, D), ctxk, num_blocks=1, num_mixture_components=2)
            else:
                base = dist.StandardNormal([D])
            if kind == "dist":
                obj = base
                if base_kind == "conditional_identity":
                    cfeat = 2 * D
            else:
                if base_kind == "conditional_identity":
                    base = dist.StandardNormal([D])
                emb = None
                if case["embed"] and ctxk is not None:
                    embed_in = 3
                    emb = torch.nn.Linear(embed_in, ctxk)
                obj = Flow(b.module, base, embedding_net=emb)
        obj.train(case["mode"] == "train")
        site = type(obj).__name__
        res.labels += ["kind:" + kind, "mode:" + case["mode"], "present:" + case["present"], "top:" + case["spec"]["t"]]
        # inputs
        X0, _ = zoo.gen_inputs(b, n, case["seed"] + 2, 0.2, 1.0, dom=case["dom"])
        if kind == "dist":
            X0 = torch.randn(n, b.out_shape[0], generator=g)
        C0 = None
        if ctxk is not None or (kind == "dist" and case["base"] == "conditional_identity"):
            width = embed_in if embed_in else (2 * b.out_shape[0] if (kind == "dist" and case["base"] == "conditional_identity" and ctxk is not None) else ctxk)
            if kind == "dist" and case["base"] == "conditional_identity":
                width = 2 * b.out_shape[0]
            if len(b.in_shape) == 3 and kind == "transform":
                C0 = torch.randn([n, ctxk, b.in_shape[1], b.in_shape[2]], generator=g)
            else:
                C0 = torch.randn([n, width], generator=g)
        X, watch = _present(X0, case["present"], g)
        C, wc = _present(C0, case["present_ctx"], g)
        watch += [("context " + nm, t, cl) for nm, t, cl in wc]
        pristine = copy.deepcopy(obj)       # never called: reference for 'results do not depend on earlier calls'
        sd0 = {k: v.detach().clone() for k, v in obj.state_dict().items()}
        # what state_dict() does not show: non-persistent buffers (values and dtypes) and the training flag of every sub-module
        hidden0 = {n: t.detach().clone() for n, t in obj.named_buffers() if n not in sd0}
        dtypes0 = {n: t.dtype for n, t in list(obj.named_parameters()) + list(obj.named_buffers())}
        flags0 = {n: m.training for n, m in obj.named_modules()}
        was_init = bool(sd0.get("initialized", torch.tensor(True))) if any(k.endswith("initialized") for k in sd0) else True
        methods = []
        first_results = {}
        raised = []
        for name in case["calls"]:
            if kind == "transform" and name not in ("forward", "inverse"):
                name = "forward" if name in ("log_prob", "noise", "mean") else "inverse"
            if kind in ("flow", "dist") and name in ("forward", "inverse"):
                name = "log_prob" if name == "forward" else "sample"
            if kind == "dist" and name == "noise":
                name = "mean"
            if kind == "flow" and name == "mean":
                name = "noise"
            methods.append(name)
            # sampling calls: same RNG state before every call, so repeats must agree bitwise; deterministic calls: a
            # DIFFERENT RNG state each time, because in evaluation mode they must not consume randomness at all (dropout!)
            torch.manual_seed(1234 if name in ("sample", "sample_and_log_prob") else 1000 + len(methods))
            try:
                if name == "forward":
                    out = obj(X, C)
                elif name == "inverse":
                    if not b.invertible or b.inv_via_forward:
                        continue
                    Yin = X if (b.rng in ("same", "any") or b.dom == b.rng) and list(b.out_shape) == list(b.in_shape) else None    # (squeeze changes the shape)
                    if Yin is None:
                        with torch.no_grad():
                            Yin = copy.deepcopy(obj)(X.detach(), C.detach() if C is not None else None)[0]
                        Yw = Yin.clone()
                        out = obj.inverse(Yin, C)
                        if not torch.allclose(Yin, Yw, rtol=0, atol=0, equal_nan=True):
                            res.fail("argument_mutated", site, "inverse modified its input tensor", method="inverse")
                            return res
                    else:
                        out = obj.inverse(X, C)
                elif name == "log_prob":
                    out = (obj.log_prob(X, C),)
                elif name == "sample":
                    out = (obj.sample(case["k"], C),)
                elif name == "sample_and_log_prob":
                    out = obj.sample_and_log_prob(case["k"], C)
                elif name == "noise":
                    out = (obj.transform_to_noise(X, C),)
                elif name == "mean":
                    out = (obj.mean(C),)
                else:
                    continue
            except Exception as e:
                from vf.core import nflows_site
                st_ = nflows_site(e)
                msg = str(e)
                if "a leaf Variable that requires grad is being used in an in-place operation" in msg or "modified by an inplace operation" in msg:
                    res.fail("inplace_on_caller_tensor", st_ or site, "%s: %s" % (name, msg[:200]), method=name)
                    return res
                raised.append(type(e).__name__)
                out = None
            # caller tensors untouched?
            for nm, t, cl in watch:
                if not torch.equal(t.detach(), cl) or bool((torch.signbit(t.detach()) != torch.signbit(cl)).any()):
                    res.fail("argument_mutated", site, "%s changed the caller's %s (max diff %g)" % (name, nm, float((t.detach() - cl).abs().max())),
                             method=name, what=nm.split(" ")[0])
                    return res
            if out is not None and case["mode"] == "eval":
                outs = [o.detach().clone() for o in out if torch.is_tensor(o)]
                if name in first_results:
                    prev = first_results[name]
                    if len(prev) != len(outs) or any(not torch.allclose(p, o, rtol=0, atol=0, equal_nan=True) for p, o in zip(prev, outs)):
                        res.fail("repeated_call_differs", site, "%s repeated in evaluation mode (same inputs, same RNG seed) gave different results "
                                 "after calls %s" % (name, methods), method=name)
                        return res
                else:
                    first_results[name] = outs
        # hidden (non state_dict) state: after the sequence, the used object must still answer like a never-used copy, also for
        # another batch size and - where the transform is shape-agnostic - another event shape
        if case["mode"] == "eval" and kind == "transform" and not raised:
            probes = [torch.cat([X0, X0.flip(0)], 0)[: n + 1 + (case["seed"] % 2)]]
            if _elementwise_only(case["spec"]) and C0 is None:
                # elementwise maps broadcast over leading event dimensions: events of shape [3, *event] built from the same values
                # (a scalar- or vector-parameterised layer shared between inputs of several shapes)
                idx = (torch.arange(n)[:, None] + torch.arange(3)[None, :]) % n
                probes.append(X0.detach()[idx].contiguous())
                res.labels.append("other_event_shape_probe")
            pristine0 = pristine
            for P in probes:
                pristine = copy.deepcopy(pristine0)      # every probe gets its own never-called copy
                Cp = None
                if C0 is not None:
                    if P.dim() != X0.dim() or list(P.shape[1:]) != list(X0.shape[1:]):
                        continue
                    Cp = torch.cat([C0, C0.flip(0)], 0)[: P.shape[0]]
                try:
                    with torch.no_grad():
                        torch.manual_seed(7)
                        a = obj(P, Cp)
                        torch.manual_seed(8)
                        r_ = pristine(P, Cp)
                except Exception as e:
                    res.labels.append("probe_raised:" + type(e).__name__)
                    try:
                        with torch.no_grad():
                            pristine(P, Cp)
                    except Exception:
                        continue
                    res.fail("call_history_dependence", site, "after calls %s a forward on a batch of shape %s raises %s although a never-used copy "
                             "of the model handles it" % (methods, list(P.shape), type(e).__name__), probe=str(list(P.shape)))
                    return res
                # (not bitwise: a linear cache filled through inverse holds log|det| from LU factors, a fresh one from slogdet)
                if any(u.shape != v.shape or not torch.allclose(u, v, rtol=1e-4, atol=1e-5, equal_nan=True) for u, v in zip(a, r_)):
                    res.fail("call_history_dependence", site, "after calls %s a forward on a batch of shape %s differs from the same call on a never-used "
                             "copy of the model (shapes %s vs %s)" % (methods, list(P.shape), [list(u.shape) for u in a], [list(v.shape) for v in r_]),
                             probe=str(list(P.shape)))
                    return res
        # model state
        flags1 = {n: m.training for n, m in obj.named_modules()}
        flipped = [n or "<root>" for n in flags0 if flags1.get(n) != flags0[n]]
        if flipped:
            res.fail("mode_flag_changed", site, "calls %s switched the training flag of sub-modules %s" % (methods, flipped[:4]), mode=case["mode"])
            return res
        dt1 = {n: t.dtype for n, t in list(obj.named_parameters()) + list(obj.named_buffers())}
        moved = [n for n in dtypes0 if dt1.get(n) != dtypes0[n]]
        if moved:
            res.fail("state_dtype_changed", site, "calls %s changed the dtype of %s" % (methods, ["%s: %s -> %s" % (n, dtypes0[n], dt1.get(n)) for n in moved[:3]]),
                     mode=case["mode"])
            return res
        hidden1 = dict(obj.named_buffers())
        hchanged = [n for n, t in hidden0.items() if n not in hidden1 or hidden1[n].shape != t.shape or
                    not torch.allclose(hidden1[n].double(), t.double(), rtol=0, atol=0, equal_nan=True)]
        if hchanged and case["mode"] == "eval":
            res.fail("state_changed_in_eval", site, "evaluation-mode calls %s changed non-persistent buffers %s" % (methods, hchanged[:4]), entries=hchanged[:3])
            return res
        sd1 = obj.state_dict()
        changed = [k for k in sd0 if not torch.allclose(sd0[k].float() if sd0[k].dtype != torch.bool else sd0[k].float(),
                                                        sd1[k].float(), rtol=0, atol=0, equal_nan=True)]
        if case["mode"] == "eval":
            if changed:
                res.fail("state_changed_in_eval", site, "evaluation-mode calls %s changed state_dict entries %s" % (methods, changed[:4]), entries=changed[:3])
        else:
            bad = []
            for k in changed:
                leaf = k.split(".")[-1]
                if leaf in ALLOWED_TRAIN:
                    continue
                if leaf in ("log_scale", "shift", "initialized") and not bool(sd0[k.rsplit(".", 1)[0] + ".initialized" if "." in k else "initialized"]) \
                        and (any(mm in ("forward", "log_prob", "noise") for mm in methods) or '"inverse"' in json.dumps(case.get("spec", {}))):
                    # (inside an Inverse wrapper the layer's forward runs when the wrapper's inverse is called)
                    continue   # ActNorm's documented one-off data-dependent initialisation - on a training-mode FORWARD pass only
                bad.append(k)
            if bad:
                res.fail("state_changed_in_train", site, "training-mode calls %s changed %s (only normalisation statistics may change)" % (methods, bad[:4]),
                         entries=bad[:3])
        res.nontrivial = len(sd0) > 0 and len(set(methods)) >= 2
        if raised:
            res.labels.append("raised:" + raised[0])
    return res
