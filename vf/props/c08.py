"""C08 - Composite, Inverse and Multiscale wrappers are exact function composition."""
import itertools
import math

import numpy as np
import torch
from hypothesis import strategies as st

from vf import zoo
from vf.core import CaseResult, dtype_mode

PROPERTY = "C08"
RULE = ("(a) Programs: random trees (depth <= 3, <= 7 leaves) of CompositeTransform / InverseTransform / "
        "MultiscaleCompositeTransform over non-commuting leaves (LU, QR, permutations, per-feature affine, LeakyReLU, LogTanh, "
        "spline CDFs with tails, affine coupling and masked-affine autoregressive layers that consume a context), evaluated "
        "forward and inverse, with and without context, against a 20-line interpreter that chains the LEAVES' public "
        "forward/inverse in the documented order and sums their log-dets. (b) Multiscale routing, exhaustive: 1-4 stages x "
        "split_dim 1-3 x every event shape with 1-3 dims of size 1-6; stage k multiplies by 2^(2^k) and inputs are distinct odd "
        "integers, so every output value identifies its input coordinate and the exact set of stages it passed; compared with "
        "a numpy model of the docstring (after every stage but the last the first ceil(n/2) slices along split_dim are emitted, "
        "flattened); log-det = sum_k (#coordinates entering stage k) * log scale_k; inverse restores the input bit-for-bit; "
        "shapes add_transform must refuse raise ValueError. Programs run under a float64 default dtype or as a .double() twin of a model "
        "built under the float32 default (results must stay float64); repeated calls on one wrapper object (other calls in between) "
        "must reproduce the first, checked, results bit-for-bit. Composites may hold the same transform object at two positions. "
        "Non-trivial: >= 2 parts/stages.")
ASSUMPTIONS = ["integer-valued float64 arithmetic is exact below 2^53", "the interpreter trusts only the leaves' own forward/inverse"]
EXHAUSTIVE = {"quick": True, "thorough": True}
EXPLANATION = "exhaustive over the multiscale shape/stage/split grid; programs are generated"


def budget(tier):
    return {"examples": 8000 if tier == "quick" else 150000, "wall_s": 100 if tier == "quick" else 1200}


def enumerate_cases(tier):
    cases = []
    top = 6 if tier == "quick" else 9
    for nd in (1, 2, 3):
        for shape in itertools.product(range(1, top + 1), repeat=nd):
            if nd == 3 and tier == "quick" and max(shape) > 5:
                continue
            for sd in range(1, nd + 1):
                for stages in (1, 2, 3, 4):
                    cases.append({"kind": "routing", "shape": list(shape), "split_dim": sd, "stages": stages, "batch": 2})
    return cases


LEAVES = ["paffine", "lu", "qr", "perm", "leakyrelu", "logtanh", "cdf", "c_affine", "ar_affine", "naive", "compositecdf"]


@st.composite
def _leaf(draw, D, ctxk):
    t = draw(st.sampled_from(LEAVES))
    seed = draw(st.integers(0, 10 ** 6))
    if t == "paffine":
        return {"t": "paffine", "scale": draw(st.lists(st.sampled_from([0.5, 2.0, -1.5, 3.0]), min_size=D, max_size=D)),
                "shift": draw(st.lists(st.sampled_from([0.0, 1.0, -2.0]), min_size=D, max_size=D))}
    if t == "lu":
        return {"t": "lu", "identity_init": False, "cache": draw(st.booleans())}
    if t == "naive":
        return {"t": "naive", "orth": False, "seed": seed}
    if t == "qr":
        return {"t": "qr", "nh": draw(st.integers(1, D + 1))}
    if t == "perm":
        return {"t": "perm", "perm": draw(st.permutations(list(range(D)))), "dim": 1}
    if t == "leakyrelu":
        return {"t": "leakyrelu", "slope": draw(st.sampled_from([0.2, 0.5]))}
    if t == "logtanh":
        return {"t": "logtanh", "cut": 1.0}
    if t == "cdf":
        return {"t": draw(st.sampled_from(["cdf_rq", "cdf_quad", "cdf_lin"])), "bins": 3, "tails": "linear", "tb": 2.0}
    if t == "compositecdf":
        return {"t": "compositecdf", "squash": {"t": "sigmoid", "temp": draw(st.sampled_from([1.0, 0.7, 1.6])), "learn": draw(st.booleans())},
                "cdf": {"t": draw(st.sampled_from(["cdf_rq", "cdf_quad", "cdf_lin"])), "bins": 3, "tails": None}}
    if t == "logit":
        return {"t": "logit", "temp": draw(st.sampled_from([1.0, 0.5, 2.0]))}
    if t == "c_affine" and D >= 2:
        return {"t": "c_affine", "mask": draw(zoo.mask_for(D)), "hidden": 4, "blocks": 1, "act": "tanh", "use_ctx": True}
    if t == "ar_affine":
        return {"t": "ar_affine", "hidden": max(4, D), "blocks": 1, "act": "tanh", "res": True, "use_ctx": True, "seed": seed}
    return {"t": "leakyrelu", "slope": 0.3}


@st.composite
def _tree(draw, D, ctxk, depth):
    kind = draw(st.sampled_from(["leaf", "composite", "composite", "inverse", "multiscale"] if depth > 0 else ["leaf"]))
    if kind == "leaf":
        return draw(_leaf(D, ctxk))
    if kind == "composite":
        n = draw(st.integers(2, 3))
        node = {"t": "composite", "parts": [draw(_tree(D, ctxk, depth - 1)) for _ in range(n)]}
        if draw(st.integers(0, 3)) == 0:
            # the same transform OBJECT at two positions ([a, a], [a, b, a]): documented semantics is still part_n(...part_1(x))
            i = draw(st.integers(0, n - 2))
            j = draw(st.integers(i + 1, n - 1))
            node["parts"][j] = node["parts"][i]
            node["share"] = [i, j]
        return node
    if kind == "inverse":
        inner = draw(_tree(D, ctxk, depth - 1))
        for _ in range(draw(st.sampled_from([1, 1, 2, 3, 4, 5]))):     # directly nested inverse wrappers, any parity
            inner = {"t": "inverse", "of": inner}
        return inner
    # multiscale over flat features: stage k sees the remaining features
    stages, cur, parts = draw(st.integers(1, 3)), D, []
    for k in range(stages):
        if cur < 2:
            break
        parts.append(draw(_leaf(cur, ctxk)))
        cur = cur // 2
    if not parts:
        return draw(_leaf(D, ctxk))
    return {"t": "multiscale", "split_dim": 1, "parts": parts}


@st.composite
def _case(draw):
    if draw(st.integers(0, 60)) == 0:
        return {"kind": "empty_composite", "rows": draw(st.integers(1, 5)), "shape": draw(st.sampled_from([[3], [1], [2, 2, 2]])), "seed": draw(st.integers(0, 1000))}
    if draw(st.integers(0, 24)) == 0:
        return {"kind": "named_inverse", "which": draw(st.sampled_from(["logit", "logit", "cauchy"])), "temp": draw(st.sampled_from([1.0, 0.5, 2.0])),
                "eps": draw(st.sampled_from([1e-6, 1e-3, 1e-2, 0.1])), "seed": draw(st.integers(0, 10 ** 6))}
    D = draw(st.integers(2, 6))
    ctxk = draw(st.sampled_from([None, 2]))
    tree = draw(_tree(D, ctxk, draw(st.integers(1, 3))))
    return {"kind": "program", "D": D, "ctx": ctxk, "tree": tree, "seed": draw(st.integers(0, 10 ** 6)), "double_twin": draw(st.booleans()),
            "regime": draw(st.sampled_from(["small", "moderate", "fresh"])), "rows": draw(st.integers(1, 3))}


def case_strategy(tier):
    return _case()


def _flat_multiscale(tree):
    """A multiscale node flattens its output: it may only appear at the top or as the last part of composites/under inverse
    where shapes still match (flat [D] in, flat [D] out when split_dim=1 on flat inputs) - always true here."""
    return True


class _NonFinite(Exception):
    pass


def interp(b, spec, x, ctx, inverse):
    """Reference semantics from the docstrings, using only the leaves' public forward/inverse."""
    if not bool(torch.isfinite(x).all()):
        raise _NonFinite()       # an earlier stage overflowed (exp-type growth): what follows is undefined, not a composition question
    t = spec["t"]
    if t == "composite":
        tot = torch.zeros(x.shape[0], dtype=x.dtype)
        seq = list(zip(b.parts, spec["parts"]))
        for pb, ps in (seq[::-1] if inverse else seq):
            x, l = interp(pb, ps, x, ctx, inverse)
            tot = tot + l
        return x, tot
    if t == "inverse":
        return interp(b.parts[0], spec["of"], x, ctx, not inverse)
    if t == "compositecdf":
        # documented: squash -> cdf -> squash^-1, with the very objects handed to the constructor
        sq, cdf = b.cdf_parts
        if not inverse:
            h, l1 = sq.module(x, ctx)
            h, l2 = cdf.module(h, ctx)
            if not bool(torch.isfinite(h).all()):
                raise _NonFinite()
            h, l3 = sq.module.inverse(h, ctx)
        else:
            h, l1 = sq.module(x, ctx)
            h, l2 = cdf.module.inverse(h, ctx)
            h, l3 = sq.module.inverse(h, ctx)
        return h, l1 + l2 + l3
    if t == "multiscale":
        B = x.shape[0]
        tot = torch.zeros(B, dtype=x.dtype)
        S = len(spec["parts"])
        if not inverse:
            outs, h = [], x
            for k, (pb, ps) in enumerate(zip(b.parts, spec["parts"])):
                h, l = interp(pb, ps, h, ctx, False)
                tot = tot + l
                if k < S - 1:
                    c = (h.shape[1] + 1) // 2
                    outs.append(h[:, :c].reshape(B, -1))
                    h = h[:, c:]
            outs.append(h.reshape(B, -1))
            return torch.cat(outs, 1), tot
        # inverse: peel the emitted chunks off again
        sizes, cur = [], b.parts[0].in_shape[0]
        for k in range(S - 1):
            c = (cur + 1) // 2
            sizes.append(c)
            cur = cur - c
        sizes.append(cur)
        chunks, off = [], 0
        for sz in sizes:
            chunks.append(x[:, off:off + sz])
            off += sz
        h, l = interp(b.parts[-1], spec["parts"][-1], chunks[-1], ctx, True)
        tot = tot + l
        for k in range(S - 2, -1, -1):
            h = torch.cat([chunks[k], h], 1)
            h, l = interp(b.parts[k], spec["parts"][k], h, ctx, True)
            tot = tot + l
        return h, tot
    return (b.module.inverse(x, ctx) if inverse else b.module(x, ctx))


def _routing(case, res):
    from nflows import transforms as T

    shape, sd, S, B = case["shape"], case["split_dim"], case["stages"], case["batch"]
    scales = [2.0 ** (2 ** k) for k in range(S)]
    m = T.MultiscaleCompositeTransform(S, split_dim=sd)
    cur = tuple(shape)
    ok = True
    try:
        for k in range(S):
            nxt = m.add_transform(T.PointwiseAffineTransform(scale=scales[k]), cur)
            if k < S - 1:
                want = list(cur)
                want[sd - 1] = cur[sd - 1] // 2
                if tuple(nxt) != tuple(want):
                    res.fail("hidden_shape", "MultiscaleCompositeTransform.add_transform", "returned %s, want %s" % (nxt, tuple(want)))
                    return
                cur = tuple(nxt)
            elif nxt is not None:
                res.fail("hidden_shape", "MultiscaleCompositeTransform.add_transform", "last add_transform returned %s" % (nxt,))
                return
    except ValueError:
        ok = False
    # reference: is the configuration acceptable? every stage needs size >= 2 along the split dim
    n, acceptable = shape[sd - 1], True
    for k in range(S):
        if n < 2:
            acceptable = False
            break
        n = n // 2
    res.labels.append("accepted" if ok else "refused")
    if ok != acceptable:
        res.fail("acceptance", "MultiscaleCompositeTransform.add_transform", "shape %s split_dim %d stages %d: accepted=%s, documented=%s" % (
            shape, sd, S, ok, acceptable))
        return
    if not ok:
        res.nontrivial = True
        return
    N = int(np.prod(shape))
    x = (2 * torch.arange(B * N, dtype=torch.float64) + 1).reshape([B] + list(shape))
    y, ld = m(x)
    # numpy model of the docstring
    h = x.numpy()
    outs, ldref = [], 0.0
    for k in range(S):
        ldref += h[0].size * math.log(scales[k])
        h = h * scales[k]
        if k < S - 1:
            c = (h.shape[sd] + 1) // 2
            idx = [slice(None)] * h.ndim
            idx[sd] = slice(0, c)
            outs.append(h[tuple(idx)].reshape(B, -1))
            idx[sd] = slice(c, None)
            h = h[tuple(idx)]
    outs.append(h.reshape(B, -1))
    ref = np.concatenate(outs, 1)
    if tuple(y.shape) != ref.shape or not np.array_equal(y.numpy(), ref):
        # decode the first wrong coordinate for the message
        msg = "shape %s vs %s" % (tuple(y.shape), ref.shape)
        if tuple(y.shape) == ref.shape:
            j = int(np.nonzero(y.numpy()[0] != ref[0])[0][0])
            v, w = float(y.numpy()[0, j]), float(ref[0, j])

            def dec(val):
                e = 0
                while val % 2 == 0 and val != 0:
                    val /= 2
                    e += 1
                return "input %g via stages %s" % (val, [k for k in range(S) if (e >> k) & 1])
            msg = "output position %d holds %s, documented: %s" % (j, dec(v), dec(w))
        res.fail("routing", "MultiscaleCompositeTransform.forward", "shape %s split_dim %d stages %d: %s" % (shape, sd, S, msg),
                 shape=shape, split_dim=sd, stages=S)
        return
    if float((ld - ldref).abs().max()) > 1e-12 * (1 + abs(ldref)):
        res.fail("routing_logdet", "MultiscaleCompositeTransform.forward", "logabsdet %r, want %r" % (ld.tolist(), ldref))
        return
    xb, ldi = m.inverse(y)
    if tuple(xb.shape) != tuple(x.shape) or not torch.equal(xb, x):
        res.fail("routing_inverse", "MultiscaleCompositeTransform.inverse", "inverse(forward(x)) != x for shape %s split_dim %d stages %d" % (shape, sd, S))
        return
    if float((ldi + ld).abs().max()) > 1e-12 * (1 + abs(ldref)):
        res.fail("routing_logdet", "MultiscaleCompositeTransform.inverse", "inverse logabsdet %r vs forward %r" % (ldi.tolist(), ld.tolist()))
    # every input coordinate appears exactly once
    odd = y.numpy()[0].copy()
    while True:
        even = (odd % 2 == 0)
        if not even.any():
            break
        odd[even] /= 2
    if sorted(odd.tolist()) != sorted(x.numpy()[0].ravel().tolist()):
        res.fail("routing", "MultiscaleCompositeTransform.forward", "some input coordinate is lost or duplicated")
    res.nontrivial = S >= 2


def run_case(case):
    res = CaseResult()
    # programs run either with float64 as the default dtype, or - "double_twin" - as users get double precision: a model built
    # under the float32 default and converted with .double() (accumulators created with torch.zeros(...) would stay float32)
    twin = case["kind"] == "program" and case.get("double_twin")
    with dtype_mode(not twin):
        if case["kind"] == "empty_composite":
            # zero parts: the identity with one zero log-det PER EXAMPLE (bare, nested, inside an InverseTransform, on images)
            from nflows import transforms as T
            g_ = torch.Generator().manual_seed(case["seed"])
            shape = [case["rows"]] + case["shape"]
            x = torch.randn(shape, generator=g_, dtype=torch.float64)
            m0 = T.CompositeTransform([])
            for nm, mod in (("CompositeTransform([])", m0), ("InverseTransform(CompositeTransform([]))", T.InverseTransform(T.CompositeTransform([]))),
                            ("CompositeTransform([CompositeTransform([])])", T.CompositeTransform([T.CompositeTransform([])]))):
                for d, fn in (("forward", mod.forward), ("inverse", mod.inverse)):
                    with torch.no_grad():
                        y, ld = fn(x)
                    if not torch.equal(y, x) or tuple(ld.shape) != (case["rows"],) or bool((ld != 0).any()) or ld.dtype != x.dtype:
                        res.fail("composition_logdet", "CompositeTransform", "%s.%s on %s inputs returns log-det of shape %s dtype %s (want %s zeros)" % (
                            nm, d, shape, tuple(ld.shape), ld.dtype, (case["rows"],)), direction=d)
                        return res
            res.labels.append("empty_composite")
            res.nontrivial = True
            return res
        if case["kind"] == "named_inverse":
            # the library's own InverseTransform subclasses: Logit(t, eps) is Sigmoid(t, eps) with the directions swapped,
            # CauchyCDFInverse is CauchyCDF swapped - bit for bit, for every constructor argument, tails [0, eps) included
            from nflows.transforms import nonlinearities as NL
            g_ = torch.Generator().manual_seed(case["seed"])
            u = torch.rand(6, 3, generator=g_, dtype=torch.float64)
            u[0, 0], u[0, 1], u[1, 0], u[1, 1] = 0.0, 1.0, case["eps"] / 3, 1 - case["eps"] / 3
            x = torch.randn(6, 3, generator=g_, dtype=torch.float64) * 4
            if case["which"] == "logit":
                wrapped, plain = NL.Logit(temperature=case["temp"], eps=case["eps"]), NL.Sigmoid(temperature=case["temp"], eps=case["eps"])
            else:
                wrapped, plain = NL.CauchyCDFInverse(), NL.CauchyCDF()
                u[2, 0], u[2, 1], u[0, 0], u[0, 1] = 1e-9, 1 - 1e-9, 1e-3, 1 - 1e-3       # tails as well (double precision)
            res.labels += ["named_inverse:" + case["which"]]
            res.nontrivial = True
            same = lambda a_, b_: a_.shape == b_.shape and bool(torch.allclose(a_, b_, rtol=0, atol=0, equal_nan=True))  # noqa
            with torch.no_grad():
                a1, l1 = wrapped(u)
                a2, l2 = plain.inverse(u)
                c1, m1 = wrapped.inverse(x)
                c2, m2 = plain(x)
            if not (same(a1, a2) and same(l1, l2) and same(c1, c2) and same(m1, m2)):
                res.fail("inverse_wrapper_not_exact_swap", type(wrapped).__name__, "%s(%s) is not its wrapped transform with forward/inverse swapped "
                         "(max output difference %g)" % (type(wrapped).__name__, {k: case[k] for k in ("temp", "eps")} if case["which"] == "logit" else "",
                                                         float((a1 - a2).abs().nan_to_num().max())))
            return res
        if case["kind"] == "routing":
            res.labels += ["routing", "stages:%d" % case["stages"], "split_dim:%d" % case["split_dim"], "ndim:%d" % len(case["shape"])]
            _routing(case, res)
            return res
        D, ctxk, tree = case["D"], case["ctx"], case["tree"]
        torch.manual_seed(case["seed"])
        b = zoo.build(tree, [D], ctxk)
        zoo.apply_regime(b.module, case["regime"], case["seed"])
        b.module.eval()
        if twin:
            b.module.double()
            res.labels.append("double_twin")
        rows = case["rows"]
        g = torch.Generator().manual_seed(case["seed"] + 3)
        x = torch.randn(rows, D, generator=g, dtype=torch.float64)
        ctx = torch.randn(rows, ctxk, generator=g, dtype=torch.float64) if ctxk else None
        res.labels += ["program", "top:" + tree["t"], "ctx:%s" % (ctxk is not None)]

        def count(s):
            if s["t"] in ("composite", "multiscale"):
                return sum(count(p) for p in s["parts"])
            if s["t"] == "inverse":
                return count(s["of"])
            return 1
        res.nontrivial = count(tree) >= 2
        firsts = {}
        for inverse in (False, True):
            with torch.no_grad():
                try:
                    ref, lref = interp(b, tree, x, ctx, inverse)
                except Exception as e:
                    if type(e).__name__ in ("InputOutsideDomain", "_NonFinite"):
                        res.inconclusive += 1
                        continue
                    raise
                got, lgot = (b.module.inverse(x, ctx) if inverse else b.module(x, ctx))
            firsts[inverse] = (got, lgot)
            if not (bool(torch.isfinite(ref).all()) and bool(torch.isfinite(lref).all())):
                res.inconclusive += 1
                continue
            d = "inverse" if inverse else "forward"
            if got.dtype != torch.float64 or lgot.dtype != torch.float64:
                res.fail("wrapper_changes_dtype", type(b.module).__name__, "%s of a double-precision wrapper returns %s / %s" % (d, got.dtype, lgot.dtype), direction=d)
                return res
            if tuple(got.shape) != tuple(ref.shape) or float((got - ref).abs().max()) > 1e-12 * (1 + float(ref.abs().max())):
                res.fail("composition_outputs", type(b.module).__name__, "%s of %s differs from hand-chained leaves by %g" % (
                    d, tree["t"], float((got - ref).abs().max()) if tuple(got.shape) == tuple(ref.shape) else float("nan")), direction=d, ctx=ctxk is not None)
                return res
            if float((lgot - lref).abs().max()) > 1e-11 * (1 + float(lref.abs().max())) * count(tree):
                res.fail("composition_logdet", type(b.module).__name__, "%s log-det %s differs from sum over leaves %s" % (d, lgot.tolist(), lref.tolist()),
                         direction=d, ctx=ctxk is not None)
                return res
        # wrappers are stateless: the same call repeated on the same object (other calls in between) gives the same result
        same = lambda u, v: u.shape == v.shape and bool(torch.allclose(u, v, rtol=0, atol=0, equal_nan=True))  # noqa
        if len(firsts) < 2:
            return res        # a direction overflowed / left a domain on these inputs
        with torch.no_grad():
            try:
                f1, i1 = b.module(x, ctx), b.module.inverse(x, ctx)
                x2 = torch.randn(rows + 1, D, generator=g, dtype=torch.float64)
                c2 = torch.randn(rows + 1, ctxk, generator=g, dtype=torch.float64) if ctxk else None
                for call in (b.module.inverse, b.module):     # other calls in between; their results are not judged
                    try:
                        call(x2, c2)
                    except Exception:
                        pass
                f2, i2 = b.module(x, ctx), b.module.inverse(x, ctx)
                f0, i0 = firsts.get(False, f1), firsts.get(True, i1)      # the very first calls on this object (checked above)
                if not (same(f0[0], f1[0]) and same(f0[1], f1[1]) and same(f1[0], f2[0]) and same(f1[1], f2[1])):
                    res.fail("wrapper_not_stateless", type(b.module).__name__, "forward repeated on the same wrapper object gives a different result", direction="forward")
                    return res
                if not (same(i0[0], i1[0]) and same(i0[1], i1[1]) and same(i1[0], i2[0]) and same(i1[1], i2[1])):
                    res.fail("wrapper_not_stateless", type(b.module).__name__, "inverse repeated on the same wrapper object gives a different result "
                             "(max diff %g)" % max(float((i0[0] - i1[0]).abs().nan_to_num().max()), float((i1[0] - i2[0]).abs().nan_to_num().max())), direction="inverse")
                    return res
            except Exception as e:
                if type(e).__name__ != "InputOutsideDomain":
                    raise
        # InverseTransform swaps the two directions exactly (bitwise)
        if tree["t"] == "inverse" and len(firsts) == 2:
            inner = b.parts[0].module
            with torch.no_grad():
                a1, l1 = b.module(x, ctx)
                a2, l2 = inner.inverse(x, ctx)
                c1, m1 = b.module.inverse(x, ctx)
                c2, m2 = inner(x, ctx)
            same = lambda u, v: u.shape == v.shape and bool(torch.allclose(u, v, rtol=0, atol=0, equal_nan=True))  # noqa
            if not (same(a1, a2) and same(l1, l2) and same(c1, c2) and same(m1, m2)):
                res.fail("inverse_wrapper_not_exact_swap", "InverseTransform", "InverseTransform(t).forward/inverse are not bitwise t.inverse/forward")
    return res
