"""C02 - inverse undoes forward in both orders, returns the negated log-abs-det, everything finite."""
import numpy as np
import torch
from hypothesis import strategies as st

from vf import zoo
from vf.core import CaseResult, dtype_mode
from vf.oracles import jac_in_batch

PROPERTY = "C02"
RULE = ("An invertible zoo transform (leaf or composite, Inverse wrappers, flat/images, context, cache on/off) x parameter "
        "regime (zero/equal/nonuniform weighted up) x 2-3 in-domain rows with special points, float64. Checks: "
        "inverse(forward(x)) == x within 1e-8*(|y|*||J^-1|| + |x|) + A*max(1,||J^-1||), kappa = max(1, ||J^-1||_inf) from the autograd "
        "Jacobian at x; forward(inverse(y)) == y for y drawn directly in the range (kappa = ||J||_inf); "
        "inverse(y).logabsdet + forward(inverse(y)).logabsdet == 0; every number finite. A = declared approximation "
        "constants (Sigmoid eps clamp, cubic quadratic_threshold, UMNN bisection). Non-trivial: forward is not the identity "
        "on the batch. Maps made of additions and multiplications only (affine, permutations, affine couplings / autoregressive layers) "
        "get 1e-11 instead of 1e-8; autoregressive layers also with 7-14 features; conditioners also with dropout (evaluation mode); the "
        "second order starts with inverse() on a never-called copy. Distinct = distinct case JSON.")
ASSUMPTIONS = ["conditioning measured from the float64 autograd Jacobian", "UMNN inverse inputs are produced by forward (its "
               "bisection only searches x in [-20, 20])", "chains driving exp/tanh/sigmoid into saturation are inconclusive"]
EXPLANATION = "generated search only"


def budget(tier):
    return {"examples": 7000 if tier == "quick" else 250000, "wall_s": 100 if tier == "quick" else 1500}


@st.composite
def _case(draw):
    c = draw(zoo.transform_case({"regimes": ["fresh", "zero", "zero", "equal", "small", "moderate", "nonuniform", "nonuniform", "flatbin", "flatbin"]}))
    c["inp"] = {"n": draw(st.integers(2, 3)), "seed": draw(st.integers(0, 10 ** 6)), "special": draw(st.sampled_from([0.0, 0.4, 0.4, 1.0])),
                "scale": draw(st.sampled_from([1.0, 1.0, 3.0, 0.3])), "ulp": draw(st.sampled_from([0, 0, 1, 2]))}
    c["mode"] = draw(st.sampled_from(["eval", "eval", "eval", "train"]))
    if draw(st.integers(0, 14)) == 0:
        # many features: the autoregressive inverse needs that many exact passes
        c["shape"], c["dom"], c["ctx"] = [draw(st.integers(7, 14))], "R", draw(st.sampled_from([None, 2]))
        c["spec"] = {"t": "ar_affine", "hidden": draw(st.sampled_from([4, 8, 16])), "blocks": draw(st.integers(0, 2)), "act": draw(st.sampled_from(["tanh", "relu"])),
                     "res": True, "use_ctx": True, "seed": draw(st.integers(0, 1000))}
        c["init"]["regime"] = draw(st.sampled_from(["fresh", "small", "moderate"]))
    if c["mode"] == "eval" and draw(st.integers(0, 3)) == 0:
        from vf.props.c13 import _add_dropout
        c["spec"] = _add_dropout(c["spec"], draw(st.sampled_from([0.3, 0.5])))     # conditioners with dropout: inert in evaluation mode
    return c


def case_strategy(tier):
    return _case()


def _norm_inf(M):
    return float(M.abs().sum(1).max())


def _kappas(fo, X, i, special_row=False):
    """(max(1,||J||), max(1,||J^-1||)) in the inf-norm; at special points (kinks, box edges, tail junction) the worst of
    the autograd Jacobian and both one-sided finite-difference Jacobians, since the conditioning differs by side."""
    Js = [zoo.robust_jac(fo, X, i)]
    if special_row:
        Js += zoo.one_sided_jacs(fo, X, i)
    kJ = kJi = 0.0
    for J in Js:
        if not bool(torch.isfinite(J).all()):
            return None, None
        try:
            Ji = torch.linalg.inv(J)
        except Exception:
            return None, None
        if not bool(torch.isfinite(Ji).all()):
            return None, None
        kJ, kJi = max(kJ, _norm_inf(J)), max(kJi, _norm_inf(Ji))
    return kJ, kJi


def _ld_sensitivity(m, ctx, X, i, extra=0.0):
    """How much forward's log-abs-det moves when row i of X moves by a few ulps: the inverse evaluates its log-det at its
    internal (normalised) root, the returned point is that root rounded to the caller's scale.  `extra`: declared resolution of
    an approximate inverse inside the chain (UMNN's bisection) - the point handed on to the exact parts is only known that well,
    and a kink of a C0 part within that distance puts the two log-dets on different sides of it."""
    worst = 0.0
    with torch.no_grad():
        base = m(X, ctx)[1][i]
        for sgn in (-1.0, 1.0):
            Xp = X.clone()
            Xp[i] = X[i] + sgn * (16 * 2.2e-16 * (1.0 + X[i].abs().max()) + extra)
            try:
                worst = max(worst, abs(float(m(Xp, ctx)[1][i] - base)))
            except Exception:
                pass
        # element by element as well: a row with one element on the upper and one on the lower end of a box cannot be moved as a
        # whole in either direction without leaving the domain, and boundary layers (a flat bin with a steep end derivative: the
        # log-derivative changes by 1e-2 within 4 ulps) sit exactly there
        flat = X[i].reshape(-1)
        if flat.numel() <= 64:
            tot = 0.0
            for j in range(flat.numel()):
                wj = 0.0
                for sgn in (-1.0, 1.0):
                    Xp = X.clone()
                    Xp[i].reshape(-1)[j] = flat[j] + sgn * (16 * 2.2e-16 * (1.0 + float(flat[j].abs())) + extra)
                    try:
                        wj = max(wj, abs(float(m(Xp, ctx)[1][i] - base)))
                    except Exception:
                        pass
                tot += wj
            worst = max(worst, tot)
    return 4 * worst if worst == worst else 0.0


def run_case(case):
    res, b = _run_case(case)
    if res.failures and b is not None and b.param_max[0] > 10.0 and all(f["kind"] in ("nonfinite_inverse", "roundtrip_x", "roundtrip_y", "logdet_not_negated") for f in res.failures):
        # a conditioner produced unnormalised parameters beyond the stated domain (|.| <= 10), e.g. because identity
        # features of size 40-120 (tail region) were fed to it: saturated sigmoids/softmaxes make bins numerically flat
        res.labels.append("extreme_conditioner_params")
        res.inconclusive += len(res.failures)
        res.failures = []
    return res


def _run_case(case):
    from vf.props.c01 import _has

    res = CaseResult()
    b = None
    with dtype_mode(True):
        b = zoo.instantiate(case)
        m = b.module
        import copy
        m_fresh = copy.deepcopy(m)      # never called: order 2 starts with inverse() on an object whose caches are still empty
        n = case["inp"]["n"]
        site = case["spec"]["t"]
        X, special = zoo.gen_inputs(b, n, case["inp"]["seed"], case["inp"]["special"], case["inp"]["scale"], dom=case["dom"],
                                    ulp=case["inp"].get("ulp", 0))
        ctx = zoo.gen_context(b, case.get("ctx"), n, case["inp"]["seed"]) if case.get("ctx") is not None else None
        train = case.get("mode") == "train" and not b.batch_coupled_in_train and not _has(case["spec"], "actnorm") \
            and not _has(case["spec"], "batchnorm") \
            and not any(isinstance(mod, torch.nn.modules.batchnorm._BatchNorm) for mod in m.modules())
        if train:
            m.train()
        res.labels += ["mode:" + ("train" if train else "eval"), "regime:" + case["init"]["regime"], "dim:%dD" % (len(case["shape"]) + 1),
                       "ctx:%s" % (case.get("ctx") is not None), "top:" + site] + ["tag:" + t for t in b.tags[:4]]
        D = int(np.prod(case["shape"]))
        A = zoo.resolve_A_inv(b) + b.A_out
        # maps evaluated by additions and multiplications only (affine layers, permutations, affine couplings / autoregressive
        # layers, whose inverse is D exact passes) round-trip to a few ulps times the conditioning; spline inverses solve equations
        # a spline stage rounds absolutely at the scale of its box ((x - left) / (right - left)), however small the value itself is;
        # later stages may amplify that by their conditioning (two LeakyReLU^-1 of slope 0.01: 1e4)
        from vf.props.c19 import _abs_scale
        BOXS = _abs_scale(case["spec"])
        EPSF = 1e-11 if case["spec"]["t"] in ("ar_affine", "c_affine", "c_additive", "paffine", "naive", "lu", "perm", "revperm", "randperm", "identity") else 1e-8
        fo = lambda Z: m(Z, ctx)[0]  # noqa

        def finite(*ts):
            return all(bool(torch.isfinite(t).all()) for t in ts)

        # ---- order 1: x -> y -> x
        if zoo.chain_moderate(b, X, ctx, case["spec"]):
            try:
                with torch.no_grad():
                    y, ldf = m(X, ctx)
                    xh, ldi = m.inverse(y, ctx)
                    # (a non-finite inverse is judged below; feeding NaN on into forward is not a question about the library)
                    y2, ldf2 = m(xh, ctx) if bool(torch.isfinite(xh).all()) else (xh, ldi)
            except Exception as e:
                if type(e).__name__ == "InputOutsideDomain" and case["spec"]["t"] == "composite":
                    # e.g. log(exp(1.0)) = 1 + 1ulp fed back into a [0,1] spline: rounding of the *other* parts, correctly
                    # rejected by the bounded part
                    res.labels.append("composite_boundary_rounding")
                    res.inconclusive += 1
                    return res, b
                raise
            if not finite(y, ldf):
                res.inconclusive += 1  # forward non-finite is C01's business
            elif not finite(xh, ldi) and float(ldf.abs().max()) > 25:
                res.labels.append("extreme_slope")
                res.inconclusive += 1
            elif not finite(xh, ldi) and any((lambda k: k[1] is None or k[1] > 1e5)(_kappas(fo, X, i, True)) for i in range(n)):
                res.labels.append("near_singular")  # some direction is squeezed by > 1e5: not numerically invertible
                res.inconclusive += 1
            elif not finite(xh, ldi):
                res.fail("nonfinite_inverse", site, "inverse(forward(x)) not finite: x=%s -> %s, ld=%s" % (
                    X.reshape(n, -1)[0].tolist()[:6], xh.reshape(n, -1)[0].tolist()[:6], ldi.tolist()))
                res.nontrivial = True
                return res, b
            else:
                if tuple(ldi.shape) != (n,) or list(xh.shape) != list(X.shape):
                    res.fail("inverse_shape", site, "inverse shapes %s / %s" % (tuple(xh.shape), tuple(ldi.shape)))
                    return res, b
                if float((y.reshape(n, -1) - X.reshape(n, -1)).abs().max()) > 1e-9 if y.shape == X.shape else True:
                    res.nontrivial = True
                for i in range(n):
                    if abs(float(ldf[i])) > 25:
                        res.labels.append("extreme_slope")   # some bin slope < e^-30: parameters numerically degenerate
                        res.inconclusive += 1
                        continue
                    kJ, kJi = _kappas(fo, X, i, bool(special[i].any()))
                    if kJ is None or kJi > 1e6:
                        res.inconclusive += 1
                        res.labels.append("illcond")
                        continue
                    err = float((xh[i] - X[i]).abs().max())
                    tol = EPSF * (float(y[i].abs().max()) * kJi + float(X[i].abs().max()) + 1e-4) + A * max(1.0, kJi) + 1e-14 * BOXS * kJi
                    res.see_ratio(err, tol)
                    if err > tol:
                        res.fail("roundtrip_x", site, "row %d: |inverse(forward(x)) - x| = %.3g > %.3g (kappa=%.3g, A=%.3g)" % (i, err, tol, kJi, A),
                                 measured=err, tol=tol, row_special=bool(special[i].any()))
                        break
                    # log-det of inverse at y is minus forward's at the point inverse(y)
                    e2 = abs(float(ldi[i] + ldf2[i]))
                    t2 = 1e-7 * D * (1 + abs(float(ldi[i]))) + 2 * b.A_ld + ((A + 1e-7) * 1e2 * kJi if A > 0 else 0.0)
                    if not b.smooth and bool(special[i].any()):
                        res.labels.append("kink_negation_skipped")  # C0-only maps: the two calls may sit on either side of a kink
                        continue
                    if e2 > t2:
                        t2 += _ld_sensitivity(m, ctx, xh, i, A * max(1.0, kJi)) + _ld_sensitivity(m.inverse, ctx, y, i, A * max(1.0, kJ))
                    res.see_ratio(e2, t2)
                    if e2 > t2:
                        res.fail("logdet_not_negated", site, "row %d: inverse(y).logabsdet=%.12g but forward(inverse(y)).logabsdet=%.12g" % (
                            i, float(ldi[i]), float(ldf2[i])), measured=e2, tol=t2)
                        break
        else:
            res.labels.append("saturating_chain")
            res.inconclusive += 1

        # ---- order 2: y (drawn in the range) -> x -> y
        def _onto(spec):
            # drawing y directly in the nominal range is sound only when the map is onto that range: single leaves, and
            # composites all of whose parts map R^D onto R^D (or are domain-preserving)
            if spec["t"] != "composite":
                return True
            for ps in spec["parts"]:
                bb = zoo.build(ps, [1], None) if False else None
            return all((p.dom in ("R", "any") and p.rng in ("R", "same")) for p in b.parts)

        if not res.failures and not b.inv_via_forward and _onto(case["spec"]):
            rng = b.rng if b.rng not in ("same", "any") else case["dom"]
            ob = zoo.Built(None, b.out_shape, dom=rng, specials=b.specials)
            Y, ysp = zoo.gen_inputs(ob, n, case["inp"]["seed"] + 1, case["inp"]["special"], case["inp"]["scale"], dom=rng,
                                    ulp=case["inp"].get("ulp", 0))
            if not zoo.chain_moderate_inverse(b, Y, ctx, case["spec"]):
                res.labels.append("saturating_chain_inverse")
                res.inconclusive += 1
                return res, b
            try:
                with torch.no_grad():
                    x0, ldi0 = m_fresh.inverse(Y, ctx)
            except Exception as e:
                if type(e).__name__ == "InputOutsideDomain" and case["spec"]["t"] == "composite":
                    res.labels.append("composite_boundary_rounding")
                    res.inconclusive += 1
                    return res, b
                raise
            if not finite(x0, ldi0):
                # the true pre-image (and hence the conditioning there) is unknown when the inverse itself fails; only
                # elementwise leaves with tame parameters cannot hide a near-singular point behind a conditioner
                if b.elementwise and case["spec"]["t"] != "composite" and not _has(case["spec"], "exp") \
                        and case["init"]["regime"] in ("fresh", "zero", "equal", "small"):
                    res.fail("nonfinite_inverse", site, "inverse(y) not finite for in-range y=%s: %s ld=%s" % (
                        Y.reshape(n, -1)[0].tolist()[:6], x0.reshape(n, -1)[0].tolist()[:6], ldi0.tolist()))
                    res.nontrivial = True
                else:
                    res.inconclusive += 1
                return res, b
            if zoo.chain_moderate(b, x0, ctx, case["spec"]) and float(x0.abs().max()) < 1e6:
                with torch.no_grad():
                    y1, ldf1 = m_fresh(x0, ctx)
                if not finite(y1, ldf1):
                    res.inconclusive += 1
                    return res, b
                res.labels.append("order2")
                for i in range(n):
                    if abs(float(ldi0[i])) > 12:
                        res.labels.append("extreme_slope")
                        res.inconclusive += 1
                        continue
                    kJ, kJi = _kappas(fo, x0, i, bool(ysp[i].any()))
                    if kJ is None or kJ > 1e6:
                        res.inconclusive += 1
                        continue
                    err = float((y1[i] - Y[i]).abs().max())
                    tol = EPSF * (float(x0[i].abs().max()) * kJ + float(Y[i].abs().max()) + 1e-4) + A * max(1.0, kJ) + 1e-14 * BOXS * kJ
                    res.see_ratio(err, tol)
                    if err > tol:
                        res.fail("roundtrip_y", site, "row %d: |forward(inverse(y)) - y| = %.3g > %.3g (kappa=%.3g, A=%.3g)" % (i, err, tol, kJ, A),
                                 measured=err, tol=tol, row_special=bool(ysp[i].any()))
                        break
                    e2 = abs(float(ldi0[i] + ldf1[i]))
                    t2 = 1e-7 * D * (1 + abs(float(ldi0[i]))) + 2 * b.A_ld + ((A + 1e-7) * 1e2 * kJ if A > 0 else 0.0)
                    if not b.smooth and bool(ysp[i].any()):
                        res.labels.append("kink_negation_skipped")
                        continue
                    if e2 > t2:
                        t2 += _ld_sensitivity(m, ctx, x0, i, A * max(1.0, kJi)) + _ld_sensitivity(m.inverse, ctx, Y, i, A * max(1.0, kJ))
                    if e2 > t2:
                        res.fail("logdet_not_negated", site, "row %d: inverse(y).logabsdet=%.12g but forward(inverse(y)).logabsdet=%.12g" % (
                            i, float(ldi0[i]), float(ldf1[i])), measured=e2, tol=t2)
                        break
            else:
                res.inconclusive += 1
    return res, b
