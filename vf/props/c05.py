"""C05 - base distributions are normalised, sample their own density and report true means."""
import itertools
import math

import numpy as np
import torch
from hypothesis import strategies as st

from vf.core import CaseResult, dtype_mode
from vf.oracles import ks_statistic, ks_threshold, norm_cdf, norm_logpdf, quad_1d, gl_panels, cumulative_quad_1d

PROPERTY = "C05"
RULE = ("StandardNormal / DiagonalNormal / ConditionalDiagonalNormal (identity, Linear, MLP encoder) with event shapes [1], [2], "
        "[3,1], [1,3], [2,3], [2,1,2]; ConditionalIndependentBernoulli with event size <= 10 and logits up to +-40; MADEMoG with 1-2 "
        "features, 1-4 components, +-context, residual/feed-forward, custom initialisation, perturbed weights; BoxUniform / "
        "MG1Uniform with drawn low<high; LotkaVolterraOscillating; gaussian_kde_log_eval with 1-8 samples in 1-2 D; float64 "
        "(Bernoulli also float32). Normalisation: Bernoulli by exact summation over all 2^D outcomes; continuous densities by "
        "adaptive Gauss-Legendre quadrature (1-D; 2-D as iterated quadrature) with panels aligned to component means, "
        "tolerance 5e-5 + 10*err_estimate (unresolved = inconclusive); uniforms: exp(log_prob)*volume = 1 from the constructor "
        "arguments; normals with larger event shapes against the closed-form density; Lotka-Volterra by a 24^4 tensor "
        "Gauss-Legendre rule. Sampling: KS per coordinate against the closed-form / cumulative-quadrature CDF (n=20000, "
        "p=1e-9), Bernoulli frequencies within 6 sigma, every sample has finite log_prob, per context row. mean(): documented "
        "shape and closed-form expectation; classes without a mean raise NoMeanException. Non-trivial: non-default parameters "
        "or a multi-dimensional event shape. MADEMoG: 1-4 components, optionally narrow (unconstrained std lowered by 3 or 5); 1 feature: "
        "samples also against the cumulative quadrature of exp(log_prob) itself.")
ASSUMPTIONS = ["quadrature self-tested in setup; unresolved integrals are inconclusive, never pass/fail",
               "KS thresholds at p=1e-9 (DKW bound)"]
EXPLANATION = "generated"

EVENTS = [[1], [2], [3, 1], [1, 3], [2, 3], [2, 1, 2]]


def budget(tier):
    return {"examples": 900 if tier == "quick" else 80000, "wall_s": 110 if tier == "quick" else 1500}


@st.composite
def _case(draw):
    kind = draw(st.sampled_from(["standard", "diagonal", "conditional", "conditional", "bernoulli", "bernoulli", "mademog", "mademog",
                                 "boxuniform", "mg1", "lotka", "kde"]))
    c = {"kind": kind, "seed": draw(st.integers(0, 10 ** 6)), "event": draw(st.sampled_from(EVENTS)),
         "what": draw(st.sampled_from(["normalisation", "normalisation", "sampling", "mean", "mean", "mean", "mean", "mean"])),
         "bs": draw(st.sampled_from([None, None, 100, 999, 7000]))}
    if kind == "conditional":
        c["encoder"] = draw(st.sampled_from(["identity", "linear", "mlp"]))
        c["rows"] = draw(st.integers(1, 3))
        c["layout"] = draw(st.sampled_from(["flat", "shaped"]))      # parameters as [rows, 2*D] or event-shaped [rows, ..., 2*last]
    if kind == "bernoulli":
        c["D"] = draw(st.integers(1, 10))
        c["shape2"] = draw(st.booleans())
        c["rows"] = draw(st.integers(1, 3))
        c["logit_scale"] = draw(st.sampled_from([1.0, 5.0, 20.0, 40.0]))
        c["precise"] = draw(st.booleans())
        c["encoder"] = draw(st.sampled_from(["identity", "linear"]))
    if kind == "mademog":
        c["features"] = draw(st.sampled_from([1, 1, 2, 3, 3]))
        c["random_mask"] = draw(st.booleans())
        c["blocks"] = draw(st.integers(1, 2))
        c["dropout"] = draw(st.sampled_from([0.0, 0.0, 0.3]))       # must be inert in evaluation mode
        c["components"] = draw(st.integers(1, 4))
        c["ctx"] = draw(st.sampled_from([None, 2]))
        c["res"] = draw(st.booleans())
        c["custom_init"] = draw(st.booleans())
        c["perturb"] = draw(st.sampled_from([0.0, 0.3, 1.0]))
        c["rows"] = draw(st.integers(1, 3))
        c["narrow"] = draw(st.sampled_from([0.0, 0.0, 3.0, 5.0]))
        if c["features"] == 3:
            # three features are decided by a tensor-product rule: wide components only, and mostly the normalisation question
            c["narrow"], c["perturb"] = 0.0, draw(st.sampled_from([0.0, 0.3]))
            c["what"] = draw(st.sampled_from(["normalisation", "normalisation", "normalisation", "sampling", "mean"]))
    if kind in ("boxuniform", "mg1"):
        c["D"] = 3 if kind == "mg1" else draw(st.integers(1, 4))
        c["low"] = draw(st.lists(st.sampled_from([-2.0, 0.0, 0.5, -10.0]), min_size=c["D"], max_size=c["D"]))
        c["width"] = draw(st.lists(st.sampled_from([1.0, 0.25, 3.0, 10.0]), min_size=c["D"], max_size=c["D"]))
    if kind == "kde":
        c["D"] = draw(st.sampled_from([1, 1, 2]))
        c["N"] = draw(st.integers(1, 8 if c["D"] == 1 else 4))
    return c


def case_strategy(tier):
    return _case()


def _quad_nd(logp, D, lo, hi, breaks, inner_range=None):
    """integral of exp(logp(x)) over [lo,hi]^D for D in (1,2); logp maps an [n,D] float64 array to n log-densities."""
    if D == 1:
        f = lambda x: np.exp(logp(x[:, None]))  # noqa
        return quad_1d(f, lo[0], hi[0], breaks[0], tol=1e-8)[:2]

    def inner(x0s):
        out = np.zeros(len(x0s))
        errs = 0.0
        for k, x0 in enumerate(x0s):
            g = lambda y: np.exp(logp(np.stack([np.full_like(y, x0), y], 1)))  # noqa
            l1, h1, br = (lo[1], hi[1], breaks[1]) if inner_range is None else inner_range(x0)
            v, e, _ = quad_1d(g, l1, h1, br, tol=1e-7, max_evals=6000)
            out[k] = v
            errs = max(errs, e)
        inner.err = max(inner.err, errs)
        return out
    inner.err = 0.0
    v, e, _ = quad_1d(inner, lo[0], hi[0], breaks[0], tol=1e-6, max_evals=1200)
    return v, e + inner.err * (hi[0] - lo[0])


def run_case(case):
    from nflows import distributions as dist
    from nflows.distributions.base import NoMeanException
    from nflows.utils import gaussian_kde_log_eval

    res = CaseResult()
    kind, what = case["kind"], case["what"]
    precise = case.get("precise", True)
    with dtype_mode(precise):
        torch.manual_seed(case["seed"])
        g = torch.Generator().manual_seed(case["seed"] + 1)
        res.labels += ["kind:" + kind, "what:" + what]
        ev = case["event"]
        D = int(np.prod(ev))

        def t2n(t):
            return t.detach().double().numpy()

        # ------------------------------------------------------------------ normals
        if kind in ("standard", "diagonal", "conditional"):
            rows = case.get("rows", 1)
            ctx = None
            if kind == "standard":
                d = dist.StandardNormal(ev)
                means, lstd = np.zeros([1] + ev), np.zeros([1] + ev)
            elif kind == "diagonal":
                d = dist.DiagonalNormal(ev)
                with torch.no_grad():
                    d.mean_.copy_(torch.randn(d.mean_.shape, generator=g))
                    d.log_std_.copy_(torch.randn(d.log_std_.shape, generator=g) * 0.5)
                means, lstd = t2n(d.mean_).reshape([1] + ev), t2n(d.log_std_).reshape([1] + ev)
            else:
                cw = 2 * D if case["encoder"] == "identity" else 3
                enc = None
                if case["encoder"] == "linear":
                    enc = torch.nn.Linear(cw, 2 * D)
                elif case["encoder"] == "mlp":
                    from nflows.nn.nets import MLP
                    enc = MLP([cw], [2 * D], [8])
                d = dist.ConditionalDiagonalNormal(ev, context_encoder=enc)
                ctx = torch.randn(rows, cw, generator=g) * 0.7
                with torch.no_grad():
                    p = ctx if enc is None else enc(ctx)
                means, lstd = t2n(p[..., :D]).reshape([rows] + ev), t2n(p[..., D:]).reshape([rows] + ev)
                if enc is None and case.get("layout") == "shaped" and len(ev) >= 2:
                    # event-shaped parameters: the last dimension holds [means | log-stds]
                    ctx = torch.randn([rows] + ev[:-1] + [2 * ev[-1]], generator=g) * 0.7
                    means, lstd = t2n(ctx[..., :ev[-1]]), t2n(ctx[..., ev[-1]:])
                    res.labels.append("event_shaped_parameters")
            R = means.shape[0]
            site = type(d).__name__
            res.nontrivial = kind != "standard" or len(ev) > 1
            if what == "normalisation":
                # differential against the closed form on random points (any event shape) ...
                x = torch.randn([R] + ev, generator=g) * 2
                with torch.no_grad():
                    lp = t2n(d.log_prob(x, ctx))
                ref = norm_logpdf(t2n(x), means, lstd).reshape(R, -1).sum(1)
                if lp.shape != (R,) or np.abs(lp - ref).max() > 1e-9 * (1 + np.abs(ref).max()):
                    res.fail("density_mismatch", site, "log_prob differs from the closed-form diagonal normal by %g (event shape %s)" % (
                        float(np.abs(lp - ref).max()) if lp.shape == (R,) else float("nan"), ev), event=str(ev))
                    return res
                # ... and by quadrature for total event size <= 2
                if D <= 2:
                    r = int(torch.randint(0, R, (1,), generator=g))
                    mu, sd = means[r].ravel(), np.exp(lstd[r].ravel())
                    lo, hi = mu - 9 * sd, mu + 9 * sd

                    def logp(z):
                        zt = torch.tensor(z.reshape([len(z)] + ev))
                        c = ctx[r:r + 1].expand(len(z), -1) if ctx is not None else None
                        with torch.no_grad():
                            return t2n(d.log_prob(zt, c))
                    v, e = _quad_nd(logp, D, lo, hi, [[m] for m in mu])
                    if e > 1e-5:
                        res.inconclusive += 1
                    else:
                        res.see_ratio(abs(v - 1), 5e-5 + 10 * e)
                        if abs(v - 1) > 5e-5 + 10 * e:
                            res.fail("not_normalised", site, "integral of exp(log_prob) = %.8f (err est %.1g), event shape %s" % (v, e, ev), event=str(ev))
                return res
            if what == "mean":
                with torch.no_grad():
                    m = d.mean(ctx) if kind == "conditional" else d.mean()
                want_shape = tuple(([R] if kind == "conditional" else []) + ev)
                if not torch.is_tensor(m) or tuple(m.shape) != want_shape:
                    res.fail("mean_shape", site, "mean() returned %s, want a tensor of shape %s" % (
                        tuple(m.shape) if torch.is_tensor(m) else type(m).__name__, want_shape))
                    return res
                ref = means if kind == "conditional" else means[0]
                if np.abs(t2n(m) - ref).max() > 1e-9:
                    res.fail("mean_value", site, "mean() differs from the expectation by %g" % float(np.abs(t2n(m) - ref).max()))
                return res
            # sampling
            if kind == "diagonal":
                return res
            n = 20000
            with torch.no_grad():
                s = d.sample(n, ctx, batch_size=case.get("bs")) if ctx is not None else d.sample(n, batch_size=case.get("bs"))
                lp = d.log_prob(s.reshape([-1] + ev), ctx.repeat_interleave(n, 0) if ctx is not None else None)
            if not bool(torch.isfinite(lp).all()):
                res.fail("sample_without_density", site, "a sample has non-finite log_prob")
                return res
            s = t2n(s).reshape([R, n, D]) if ctx is not None else t2n(s).reshape([1, n, D])
            thr = ks_threshold(n)
            for r in range(R):
                for j in range(D):
                    mu, sd = means[r].ravel()[j], np.exp(lstd[r].ravel()[j])
                    dks = ks_statistic(s[r, :, j], lambda z: norm_cdf((z - mu) / sd))
                    res.see_ratio(dks, thr)
                    if dks > thr:
                        res.fail("samples_not_from_density", site, "context row %d coordinate %d: KS distance %.4f > %.4f" % (r, j, dks, thr), row=r)
                        return res
            return res

        # ------------------------------------------------------------------ Bernoulli
        if kind == "bernoulli":
            Db = case["D"]
            shape = [Db] if not case["shape2"] or Db % 2 else [2, Db // 2]
            rows = case["rows"]
            cw = Db if case["encoder"] == "identity" else 3
            enc = None if case["encoder"] == "identity" else torch.nn.Linear(cw, Db)
            d = dist.ConditionalIndependentBernoulli(shape, context_encoder=enc)
            ctx = torch.randn(rows, cw, generator=g) * case["logit_scale"]
            site = "ConditionalIndependentBernoulli"
            with torch.no_grad():
                logits = t2n(ctx if enc is None else enc(ctx)).reshape(rows, Db)
            res.nontrivial = True
            if what == "normalisation":
                if Db > 10:
                    return res
                allx = torch.tensor(list(itertools.product([0.0, 1.0], repeat=Db)), dtype=torch.get_default_dtype()).reshape([-1] + shape)
                for r in range(rows):
                    with torch.no_grad():
                        lp = d.log_prob(allx, ctx[r:r + 1].expand(len(allx), -1))
                    if not bool(torch.isfinite(lp).all() | True) or bool(torch.isnan(lp).any()):
                        res.fail("nan_log_prob", site, "log_prob is NaN for a binary outcome (logits up to %.0f, %s)" % (
                            np.abs(logits[r]).max(), "float64" if precise else "float32"), precise=precise)
                        return res
                    tot = float(torch.exp(lp.double()).sum())
                    tol = 1e-9 if precise else 1e-4
                    res.see_ratio(abs(tot - 1), tol)
                    if abs(tot - 1) > tol:
                        res.fail("not_normalised", site, "sum over all 2^%d outcomes of exp(log_prob) = %.10f" % (Db, tot), precise=precise)
                        return res
                return res
            if what == "mean":
                with torch.no_grad():
                    m = d.mean(ctx)
                if tuple(m.shape) != tuple([rows] + shape):
                    res.fail("mean_shape", site, "mean() shape %s, want %s" % (tuple(m.shape), tuple([rows] + shape)))
                    return res
                ref = 1 / (1 + np.exp(-logits))
                if np.abs(t2n(m).reshape(rows, Db) - ref).max() > (1e-9 if precise else 1e-5):
                    res.fail("mean_value", site, "mean() != sigmoid(logits)")
                return res
            n = 8000
            with torch.no_grad():
                s = d.sample(n, ctx, batch_size=case.get("bs"))
            if list(s.shape) != [rows, n] + shape or not bool(((s == 0) | (s == 1)).all()):
                res.fail("sample_shape", site, "sample shape %s / non-binary values" % list(s.shape))
                return res
            freq = t2n(s).reshape(rows, n, Db).mean(1)
            p = 1 / (1 + np.exp(-logits))
            z = np.abs(freq - p) / np.sqrt(np.maximum(p * (1 - p), 1e-12) / n + 1e-12)
            bad = (z > 6.5) & (np.abs(freq - p) > 2.0 / n)
            if bad.any():
                r, j = [int(v) for v in np.argwhere(bad)[0]]
                res.fail("samples_not_from_density", site, "context row %d coordinate %d: empirical frequency %.4f, sigmoid(logit)=%.4f" % (r, j, freq[r, j], p[r, j]), row=r)
            return res

        # ------------------------------------------------------------------ MADE mixture of Gaussians
        if kind == "mademog":
            F_, C_ = case["features"], case["components"]
            rm_ = bool(case.get("random_mask", False))
            d = dist.MADEMoG(F_, 8, case["ctx"], num_blocks=case.get("blocks", 1), num_mixture_components=C_,
                             use_residual_blocks=case["res"] and not rm_, random_mask=rm_, custom_initialization=case["custom_init"],
                             dropout_probability=case.get("dropout", 0.0))
            if case["perturb"]:
                with torch.no_grad():
                    for p in d.parameters():
                        p.add_(torch.randn(p.shape, generator=g) * case["perturb"] * 0.5)
            if case.get("narrow"):
                # narrow components (as after fitting peaked data): lower the unconstrained-std outputs, so that the epsilon floor
                # of the standard deviations matters
                with torch.no_grad():
                    d._made.final_layer.bias[2::3] -= case["narrow"]
                res.labels.append("narrow_components")
            d.eval()
            rows = case["rows"] if case["ctx"] else 1
            ctx = torch.randn(rows, case["ctx"], generator=g) if case["ctx"] else None
            site = "MADEMoG"
            res.nontrivial = True
            r = int(torch.randint(0, rows, (1,), generator=g))

            def logp(z):
                zt = torch.tensor(z)
                c = ctx[r:r + 1].expand(len(z), -1) if ctx is not None else None
                with torch.no_grad():
                    return t2n(d.log_prob(zt, c))

            def first_params(c1):
                with torch.no_grad():
                    out = d._made(torch.zeros(1, F_), c1).reshape(1, F_, C_, 3)
                mu = t2n(out[0, 0, :, 1])
                sd = t2n(torch.nn.functional.softplus(out[0, 0, :, 2]) + d._made.epsilon)
                w = t2n(torch.softmax(out[0, 0, :, 0], -1))
                return mu, sd, w
            mu, sd, w = first_params(ctx[r:r + 1] if ctx is not None else None)
            if case.get("dropout"):
                # one density: evaluating the same points twice (different RNG states) must give the same values in evaluation mode
                zz = np.random.RandomState(case["seed"] % 2 ** 31).randn(16, F_)
                torch.manual_seed(1)
                a_ = logp(zz)
                torch.manual_seed(2)
                b_ = logp(zz)
                if not np.array_equal(a_, b_):
                    res.fail("density_not_a_function", site, "log_prob of the same points differs between two evaluations in evaluation mode "
                             "(max %g; dropout_probability=%g)" % (float(np.abs(a_ - b_).max()), case["dropout"]))
                    return res
            if what == "mean":
                try:
                    d.mean(ctx)
                    res.fail("mean_without_definition", site, "mean() returned although MADEMoG defines no mean")
                except NoMeanException:
                    pass
                return res
            if what == "normalisation" and F_ == 3:
                # three features: tensor-product Gauss-Legendre rule on [-R, R]^3 (two resolutions), valid for wide components only
                if case.get("narrow") or case["perturb"] > 0.3:
                    return res
                R_ = 9.0
                vals = []
                for panels in (9, 13):
                    edges = np.linspace(-R_, R_, panels + 1)
                    xg, wg = np.polynomial.legendre.leggauss(7)
                    mid, half = 0.5 * (edges[:-1] + edges[1:]), 0.5 * (edges[1:] - edges[:-1])
                    pts = (mid[:, None] + half[:, None] * xg[None, :]).ravel()
                    wts = (half[:, None] * wg[None, :]).ravel()
                    G = np.stack(np.meshgrid(pts, pts, pts, indexing="ij"), -1).reshape(-1, 3)
                    W = (wts[:, None, None] * wts[None, :, None] * wts[None, None, :]).ravel()
                    lp_ = np.concatenate([logp(G[i:i + 200000]) for i in range(0, len(G), 200000)])
                    vals.append(float((np.exp(lp_) * W).sum()))
                v, e = vals[1], abs(vals[1] - vals[0])
                res.labels.append("three_features")
                if e > 2e-4 or not np.isfinite(v):
                    res.inconclusive += 1
                    return res
                res.see_ratio(abs(v - 1), 5e-4 + 10 * e)
                if abs(v - 1) > 5e-4 + 10 * e:
                    res.fail("not_normalised", site, "integral of exp(log_prob) over 3-D = %.6f (two grids differ by %.1g), %d components" % (v, e, C_), features=F_)
                return res
            if what == "normalisation":
                lo1, hi1 = (mu - 10 * sd).min(), (mu + 10 * sd).max()
                if F_ == 1:
                    v, e = _quad_nd(logp, 1, [lo1], [hi1], [list(mu)])
                else:
                    def rng2(x0):   # aim the inner panels at the conditional mixture of x2 given x1 = x0 (aim only)
                        with torch.no_grad():
                            o = d._made(torch.tensor([[x0, 0.0]]), ctx[r:r + 1] if ctx is not None else None).reshape(1, F_, C_, 3)
                        m2 = t2n(o[0, 1, :, 1])
                        s2 = t2n(torch.nn.functional.softplus(o[0, 1, :, 2]) + d._made.epsilon)
                        return float((m2 - 10 * s2).min()), float((m2 + 10 * s2).max()), list(m2)
                    v, e = _quad_nd(logp, 2, [lo1, -60.0], [hi1, 60.0], [list(mu), []], inner_range=rng2)
                if e > 2e-5 or not np.isfinite(v):
                    res.inconclusive += 1
                    return res
                res.see_ratio(abs(v - 1), 5e-5 + 10 * e)
                if abs(v - 1) > 5e-5 + 10 * e:
                    res.fail("not_normalised", site, "integral of exp(log_prob) over %d-D = %.7f (err est %.1g), %d components" % (F_, v, e, C_), features=F_)
                return res
            # sampling: first coordinate marginal is the explicit mixture (mu, sd, w)
            n = 20000
            with torch.no_grad():
                s = d.sample(n, ctx, batch_size=case.get("bs")) if ctx is not None else d.sample(n, batch_size=case.get("bs"))
            want = [rows, n, F_] if ctx is not None else [n, F_]
            if list(s.shape) != want:
                res.fail("sample_shape", site, "sample shape %s, want %s" % (list(s.shape), want))
                return res
            s = t2n(s).reshape(rows, n, F_) if ctx is not None else t2n(s).reshape(1, n, F_)
            with torch.no_grad():
                lps = d.log_prob(torch.tensor(s[r]), ctx[r:r + 1].expand(n, -1) if ctx is not None else None)
            if not bool(torch.isfinite(lps).all()):
                res.fail("sample_without_density", site, "a sample has non-finite log_prob")
                return res
            cdf = lambda z: sum(wk * norm_cdf((z - mk) / sk) for wk, mk, sk in zip(w, mu, sd))  # noqa
            dks = ks_statistic(s[r, :, 0], cdf)
            thr = ks_threshold(n)
            res.see_ratio(dks, thr)
            if dks > thr:
                res.fail("samples_not_from_density", site, "context row %d of %d: first-coordinate KS distance %.4f > %.4f" % (r, rows, dks, thr), row=r, rows=rows)
                return res
            if F_ == 1:
                # and against the density itself: CDF by cumulative quadrature of exp(log_prob), evaluated at the samples
                xs = s[r, :, 0]
                pad = 0.25 * (xs.max() - xs.min()) + 10 * float(sd.max())
                aim = np.concatenate([mu + k * sd for k in (-8, -4, -2, -1, 0, 1, 2, 4, 8)])
                grid = np.unique(np.concatenate([np.linspace(xs.min() - pad, xs.max() + pad, 2001), xs, aim]))
                cdfv = cumulative_quad_1d(lambda z: np.exp(logp(z[:, None])), grid)
                mass = cdfv[-1]
                if not np.isfinite(mass) or abs(mass - 1) > 1e-3:
                    res.inconclusive += 1
                    res.labels.append("mass_outside_grid")
                    return res
                left = 0.5 * (1 - mass)
                dks = ks_statistic(xs, lambda z: np.interp(z, grid, cdfv + left))
                res.see_ratio(dks, thr)
                res.labels.append("ks_vs_integrated_density")
                if dks > thr:
                    res.fail("samples_not_from_density", site, "context row %d of %d, %d components: KS distance between samples and the integrated exp(log_prob) "
                             "is %.4f > %.4f" % (r, rows, C_, dks, thr), row=r, rows=rows, against="log_prob")
            return res

        # ------------------------------------------------------------------ uniforms
        if kind in ("boxuniform", "mg1"):
            from nflows.distributions.uniform import BoxUniform, MG1Uniform
            low = torch.tensor(case["low"])
            high = low + torch.tensor(case["width"])
            d = BoxUniform(low, high) if kind == "boxuniform" else MG1Uniform(low, high)
            site = type(d).__name__
            res.nontrivial = True
            vol = float(np.prod(case["width"]))
            torch.manual_seed(case["seed"])
            s = d.sample((2000,))
            lp = d.log_prob(s)
            if kind == "boxuniform":
                tot = float(torch.exp(lp[0])) * vol
                if tuple(lp.shape) != (2000,) or abs(tot - 1) > 1e-9 or float((lp - lp[0]).abs().max()) > 1e-12:
                    res.fail("not_normalised", site, "exp(log_prob) * volume = %.10f (log_prob shape %s)" % (tot, tuple(lp.shape)))
                    return res
                if bool((s < low).any()) or bool((s >= high).any()):
                    res.fail("samples_outside_support", site, "sample outside [low, high)")
                # out of support: zero density or rejected by argument validation
                out = high + 1.0
                try:
                    v = d.log_prob(out[None])
                    if bool(torch.isfinite(v).any()):
                        res.fail("mass_outside_support", site, "finite log_prob %r outside the box" % v.tolist())
                except ValueError:
                    pass
            else:
                # MG1Uniform: uniform in noise space u = theta @ A with det A = 1 -> same density per coordinate
                if not bool(torch.isfinite(lp).all()):
                    res.fail("sample_without_density", site, "MG1Uniform sample with non-finite log_prob")
                    return res
                tot = float(torch.exp(lp.sum(-1) if lp.dim() > 1 else lp)[0]) * vol
                if abs(tot - 1) > 1e-9:
                    res.fail("not_normalised", site, "exp(sum log_prob) * volume = %.10f" % tot)
            return res

        if kind == "lotka":
            from nflows.distributions.uniform import LotkaVolterraOscillating
            d = LotkaVolterraOscillating()
            site = "LotkaVolterraOscillating"
            res.nontrivial = True
            if what in ("normalisation", "mean"):
                # density is a product over coordinates inside the box -> tensor Gauss-Legendre rule on panels around the means
                mean = np.log(np.array([0.01, 0.5, 1, 0.01]))
                nodes, weights = [], []
                for k in range(4):
                    edges = np.unique(np.clip(np.array([-5.0, mean[k] - 2.5, mean[k] - 1, mean[k], mean[k] + 1, mean[k] + 2.5, 2.0]), -5, 2))
                    x, w = np.polynomial.legendre.leggauss(6)
                    xs = np.concatenate([0.5 * (a + b) + 0.5 * (b - a) * x for a, b in zip(edges[:-1], edges[1:])])
                    ws = np.concatenate([0.5 * (b - a) * w for a, b in zip(edges[:-1], edges[1:])])
                    nodes.append(xs)
                    weights.append(ws)
                G = np.stack(np.meshgrid(*nodes, indexing="ij"), -1).reshape(-1, 4)
                W = np.prod(np.stack(np.meshgrid(*weights, indexing="ij"), -1).reshape(-1, 4), 1)
                tot = 0.0
                for k in range(0, len(G), 200000):
                    with torch.no_grad():
                        tot += float((torch.exp(d.log_prob(torch.tensor(G[k:k + 200000], dtype=torch.float32)).double()) * torch.tensor(W[k:k + 200000])).sum())
                res.see_ratio(abs(tot - 1), 1e-3)
                if abs(tot - 1) > 1e-3:
                    res.fail("not_normalised", site, "integral of exp(log_prob) over the box = %.6f" % tot)
                out = d.log_prob(torch.tensor([[3.0, 0.0, 0.0, 0.0]]))
                if bool(torch.isfinite(out).any()):
                    res.fail("mass_outside_support", site, "finite log_prob outside the box")
                return res
            torch.manual_seed(case["seed"])
            s = d.sample((4000,))
            if tuple(s.shape) != (4000, 4) or bool((s < -5).any()) or bool((s > 2).any()) or not bool(torch.isfinite(d.log_prob(s)).all()):
                res.fail("samples_not_from_density", site, "samples outside the box or without finite density")
                return res
            mean = np.log(np.array([0.01, 0.5, 1, 0.01]))
            for j in range(4):
                za, zb = (-5 - mean[j]) / 0.5, (2 - mean[j]) / 0.5
                Fa, Fb = norm_cdf(za), norm_cdf(zb)
                dks = ks_statistic(s[:, j].double().numpy(), lambda z: np.clip((norm_cdf((z - mean[j]) / 0.5) - Fa) / (Fb - Fa), 0, 1))
                if dks > ks_threshold(4000):
                    res.fail("samples_not_from_density", site, "coordinate %d: KS %.4f" % (j, dks))
                    return res
            return res

        if kind == "kde":
            N, Dk = case["N"], case["D"]
            smp = torch.randn(N, Dk, generator=g) * 1.5
            site = "gaussian_kde_log_eval"
            res.nontrivial = N >= 2

            def logp(z):
                with torch.no_grad():
                    return t2n(gaussian_kde_log_eval(smp, torch.tensor(z)[:, None, :]))
            std = N ** (-1.0 / (Dk + 4))
            lo = [float(smp[:, k].min()) - 10 * std for k in range(Dk)]
            hi = [float(smp[:, k].max()) + 10 * std for k in range(Dk)]
            v, e = _quad_nd(logp, Dk, lo, hi, [sorted(t2n(smp[:, k]).tolist()) for k in range(Dk)])
            if e > 2e-5:
                res.inconclusive += 1
                return res
            res.see_ratio(abs(v - 1), 5e-5 + 10 * e)
            if abs(v - 1) > 5e-5 + 10 * e:
                res.fail("not_normalised", site, "integral of exp(kde) = %.7f for N=%d, D=%d" % (v, N, Dk), D=Dk)
            return res
    raise AssertionError(kind)
