"""C04 - samples and densities of a flow agree, row by row."""
import numpy as np
import torch
from hypothesis import strategies as st

from vf import zoo
from vf.core import CaseResult, dtype_mode
from vf.oracles import cumulative_quad_1d, ks_statistic, ks_threshold, norm_cdf

PROPERTY = "C04"
RULE = ("A Flow over a zoo transform (1-4 features, composites, context) with StandardNormal / ConditionalDiagonalNormal "
        "(Linear encoder, or identity encoder with row-identifying means 100*i and sigma 0.01) / MADE-mixture base, optional "
        "embedding network, MaskedAutoregressiveFlow, SimpleRealNVP (also with dropout_probability 0.3, batch norm within / between layers and "
        "parameters moved by N(0, 0.2..0.4) from their near-identity initialisation); context none or 1-4 separated rows (row i shifted by 2*i); num_samples 1-7; "
        "float64. (a) pairing: for (s, lp) = sample_and_log_prob(n, c): shapes [rows, n, D] / [rows, n] and lp[i, j] = "
        "log_prob(s[i, j], c[i]) (1e-6 relative); without context per draw. (b) block identity: with the row-identifying base, "
        "transform_to_noise(sample(n, c)[i], c[i]) lies within 0.2 of 100*i. (c) 1-D flows: KS distance between 20000 samples "
        "and the CDF obtained by cumulative Gauss-Legendre quadrature of exp(log_prob) (p=1e-9; total mass must be 1 +- 1e-3, "
        "else inconclusive). (d) transform_to_noise(sample) follows N(0,1) per coordinate (KS). Non-trivial: >= 2 distinct "
        "context rows, or n >= 2, or a KS test ran. MADE-mixture bases also with narrow components (unconstrained std lowered by 3 or 5), as "
        "base of the 1-D KS flows and per context row (block i against the mixture conditioned on row i). "
        "log_prob of the drawn points must agree between the flow that has sampled and a never-used copy of it (1e-6). Distinct = distinct case JSON.")
ASSUMPTIONS = ["cubic-spline transforms are excluded from the pairing test (their declared inverse approximation would dominate the tolerance)",
               "statistical tests reject at p = 1e-9 with fixed seeds"]
EXPLANATION = "generated"


def budget(tier):
    return {"examples": 2500 if tier == "quick" else 80000, "wall_s": 110 if tier == "quick" else 1500}


NO = ["exp", "tanh", "sigmoid", "cauchycdf", "squeeze", "compositecdf"]  # Sigmoid.eps clamps beyond |x| ~ 13.8: not bijective there


@st.composite
def _case(draw):
    what = draw(st.sampled_from(["pairing", "pairing", "pairing", "rowid", "ks", "noise", "mog_rows"]))
    flat = 1 if what == "ks" else 4
    c = draw(zoo.transform_case({"img": False, "flat_max": flat, "doms": ["R"], "fn_box": False, "multiscale": what != "ks",
                                 "regimes": ["fresh", "small", "moderate"] if what != "rowid" else ["fresh", "small"],
                                 "umnn": False, "exclude": NO + (["batchnorm", "compositecdf", "inv_R", "logtanh"] if what == "rowid" else []) +
                                 (["logtanh", "inv_R"] if what == "mog_rows" else [])}))      # (LogTanh^-1 grows like exp: the way back to the noise loses digits)
    c["what"] = what
    c["kind"] = draw(st.sampled_from(["flow", "flow", "flow", "maf", "realnvp"])) if what in ("pairing", "noise") else "flow"
    c["base"] = draw(st.sampled_from(["standard", "standard", "conditional", "mademog"])) if what == "pairing" else (
        "mademog" if what == "mog_rows" else (draw(st.sampled_from(["standard", "standard", "mademog"])) if what == "ks" else "standard"))
    c["narrow"] = draw(st.sampled_from([0.0, 3.0, 5.0])) if c["base"] == "mademog" else 0.0
    if what == "mog_rows" and c.get("ctx") is None:
        c["ctx"] = 2
        c["spec"] = {"t": "lu", "identity_init": False, "cache": False} if c["shape"][0] > 1 else {"t": "paffine", "shift": 0.5, "scale": 2.0}
    if what == "pairing" and draw(st.integers(0, 11)) == 0:
        # a gated linear unit whose single gate (context of width 1) is broadcast over all features
        c["shape"], c["ctx"], c["dom"], c["base"] = [draw(st.integers(2, 4))], 1, "R", draw(st.sampled_from(["standard", "conditional"]))
        c["spec"] = {"t": "composite", "parts": [{"t": "lu", "identity_init": False, "cache": False}, {"t": "glu"}]}
        c["narrow"] = 0.0
    if c["kind"] in ("maf", "realnvp") and draw(st.booleans()):
        # constructor flags of the library flows (all inert or deterministic in evaluation mode) and parameters away from initialisation
        c["lib"] = {"dropout": draw(st.sampled_from([0.0, 0.3])), "bn_within": draw(st.booleans()), "bn_between": draw(st.booleans()),
                    "perturb": draw(st.sampled_from([0.0, 0.2, 0.4]))}
    c["rows"] = draw(st.sampled_from([1, 2, 3, 4]))
    c["n"] = draw(st.integers(1, 7))
    c["embed"] = draw(st.booleans())
    c["seed"] = draw(st.integers(0, 10 ** 6))
    c["features"] = draw(st.integers(2, 4))
    return c


def case_strategy(tier):
    return _case()


def _has_cubic(spec):
    t = spec["t"]
    if t in ("composite", "multiscale"):
        return any(_has_cubic(p) for p in spec["parts"])
    if t == "inverse":
        return _has_cubic(spec["of"])
    if t == "compositecdf":
        return _has_cubic(spec["cdf"])
    return zoo.FAM_OF.get(t) == "cub"


def _has_conditioner(spec):
    t = spec["t"]
    if t in ("composite", "multiscale"):
        return any(_has_conditioner(p) for p in spec["parts"])
    if t == "inverse":
        return _has_conditioner(spec["of"])
    return t.startswith(("c_", "ar_")) or t == "glu"


def run_case(case):
    from nflows import distributions as dist
    from nflows.flows import Flow, MaskedAutoregressiveFlow, SimpleRealNVP

    res = CaseResult()
    what = case["what"]
    with dtype_mode(True):
        torch.manual_seed(case["seed"])
        g = torch.Generator().manual_seed(case["seed"] + 1)
        ctx = None
        rows = case["rows"]
        lib = case.get("lib") or {}
        kw_lib = dict(dropout_probability=float(lib.get("dropout", 0.0)), batch_norm_within_layers=bool(lib.get("bn_within", False)),
                      batch_norm_between_layers=bool(lib.get("bn_between", False)))

        def _moved(fl):
            # the library flows start next to the identity (their last layers are initialised at 1e-3): move them, as training would
            if lib.get("perturb"):
                gp = torch.Generator().manual_seed(case["seed"] + 77)
                with torch.no_grad():
                    for p_ in fl.parameters():
                        p_.add_(float(lib["perturb"]) * torch.randn(p_.shape, generator=gp))
            return fl
        if case["kind"] == "maf":
            flow = _moved(MaskedAutoregressiveFlow(case["features"], 8, 2, 1, use_random_permutations=bool(case["seed"] % 2), **kw_lib))
            D, ctxk, cubic = case["features"], None, False
        elif case["kind"] == "realnvp":
            flow = _moved(SimpleRealNVP(case["features"], 8, 2, 1, **kw_lib))
            D, ctxk, cubic = case["features"], None, False
        else:
            b = zoo.instantiate(case)
            if len(b.out_shape) != 1:
                return res
            D, ctxk = b.out_shape[0], case.get("ctx")
            cubic = _has_cubic(case["spec"])
            emb, cw = None, ctxk
            base_kind = case["base"]
            if what == "rowid":
                # the base sees [100*i ..., log 0.01 ...]; the transform receives the same tensor, so it must ignore contexts
                # (no conditioner networks) - and feeding 100*i into a conditioner would not be a bounded distortion anyway
                if ctxk is not None or _has_conditioner(case["spec"]):
                    res.labels.append("rowid_skipped")
                    return res
                base = dist.ConditionalDiagonalNormal([D])
                cw = 2 * D
            elif base_kind == "conditional" and ctxk is not None:
                enc = torch.nn.Linear(ctxk, 2 * D)
                with torch.no_grad():
                    enc.weight.mul_(0.3)     # keep log-stds O(1): e^{+-20} standard deviations are not a sampling test
                base = dist.ConditionalDiagonalNormal([D], context_encoder=enc)
            elif base_kind == "mademog":
                base = dist.MADEMoG(D, 8, ctxk, num_blocks=1, num_mixture_components=2)
                if case.get("narrow"):
                    # narrow mixture components (as after fitting peaked data): the epsilon floor of the standard deviations matters
                    with torch.no_grad():
                        base._made.final_layer.bias[2::3] -= case["narrow"]
                    res.labels.append("narrow_components")
            else:
                base = dist.StandardNormal([D])
            if case["embed"] and ctxk is not None and what != "rowid":
                emb = torch.nn.Linear(3, ctxk)
                cw = 3
            flow = Flow(b.module, base, embedding_net=emb)
            if cw is not None:
                if what == "rowid":
                    ctx = torch.cat([100.0 * torch.arange(rows, dtype=torch.float64)[:, None].expand(rows, D),
                                     torch.full((rows, D), float(np.log(1e-2)), dtype=torch.float64)], 1)
                else:
                    ctx = torch.randn(rows, cw, generator=g) + 2.0 * torch.arange(rows, dtype=torch.float64)[:, None]
            elif what == "rowid":
                ctx = torch.cat([100.0 * torch.arange(rows, dtype=torch.float64)[:, None].expand(rows, D),
                                 torch.full((rows, D), float(np.log(1e-2)), dtype=torch.float64)], 1)
        flow.eval()
        import copy
        pristine = copy.deepcopy(flow)       # never called: its log_prob is the density "before anything was sampled"
        site = type(flow).__name__
        n = case["n"]
        res.labels += ["what:" + what, "kind:" + case["kind"], "base:" + case["base"], "ctx:%s" % (ctx is not None), "embed:%s" % bool(case["embed"] and ctx is not None)]
        if case["kind"] == "flow":
            res.labels.append("top:" + case["spec"]["t"])

        def guard(fn):
            try:
                with torch.no_grad():
                    return fn()
            except Exception as e:
                if type(e).__name__ == "InputOutsideDomain":
                    return None
                raise

        if what == "pairing":
            out = guard(lambda: flow.sample_and_log_prob(n, ctx))
            if out is None:
                res.inconclusive += 1
                return res
            s, lp = out
            want = ([rows] if ctx is not None else []) + [n, D]
            if list(s.shape) != want or list(lp.shape) != want[:-1]:
                res.fail("shape", site, "sample_and_log_prob(%d, context=%s) shapes %s / %s, want %s / %s" % (
                    n, None if ctx is None else rows, list(s.shape), list(lp.shape), want, want[:-1]))
                return res
            if not (bool(torch.isfinite(s).all()) and bool(torch.isfinite(lp).all())) or float(lp.abs().max()) > 300 or cubic or float(s.abs().max()) > 1e6:
                res.inconclusive += 1
                return res
            res.nontrivial = (ctx is not None and rows >= 2) or n >= 2
            # the density must not depend on whether the flow has sampled before (caches filled through the inverse direction)
            x_ = (s[:, 0] if ctx is not None else s[:1])
            va, vb = guard(lambda: flow.log_prob(x_, ctx)), guard(lambda: pristine.log_prob(x_, ctx))
            if va is not None and vb is not None and bool(torch.isfinite(va).all()) and bool(torch.isfinite(vb).all()):
                dv = float((va - vb).abs().max())
                if dv > 1e-6 * (1 + float(vb.abs().max())):
                    res.fail("log_prob_changed_by_sampling", site, "log_prob of the same points differs by %.3g between a flow that has sampled and a "
                             "never-used copy of it" % dv, measured=dv, base=case["base"])
                    return res
            for i in range(rows if ctx is not None else 1):
                for j in range(n):
                    x = (s[i, j] if ctx is not None else s[j])[None]
                    c1 = ctx[i:i + 1] if ctx is not None else None
                    v = guard(lambda: flow.log_prob(x, c1))
                    if v is None:
                        res.inconclusive += 1
                        continue
                    got = float(lp[i, j] if ctx is not None else lp[j])
                    err = abs(float(v) - got)
                    tol = 1e-6 * (1 + abs(got))
                    res.see_ratio(err, tol)
                    if err > tol:
                        # conditioning: how much does log_prob move when the sample moves by its own round-trip error?
                        with torch.no_grad():
                            eps = 1e-9 * (1 + x.abs())
                            try:
                                sens = abs(float(flow.log_prob(x + eps, c1)) - float(v))
                            except Exception:
                                sens = float("inf")
                        if sens > tol / 10:
                            res.inconclusive += 1
                            continue
                        res.fail("sample_logprob_mismatch", site, "draw (%d,%d): sample_and_log_prob says %.10g, log_prob(sample | context row %d) = %.10g" % (
                            i, j, got, i, float(v)), measured=err, tol=tol, base=case["base"], embed=bool(case["embed"]))
                        return res
            return res

        if what == "rowid":
            n2 = max(n, 3)
            out = guard(lambda: flow.sample(n2, ctx))
            if out is None:
                res.inconclusive += 1
                return res
            if list(out.shape) != [rows, n2, D]:
                res.fail("shape", site, "sample(%d, context of %d rows) shape %s" % (n2, rows, list(out.shape)))
                return res
            res.nontrivial = rows >= 2
            for i in range(rows):
                z = guard(lambda: flow.transform_to_noise(out[i], ctx[i:i + 1].expand(n2, -1)))
                if z is None or not bool(torch.isfinite(z).all()):
                    res.inconclusive += 1
                    continue
                dev = float((z - 100.0 * i).abs().max())
                if dev > 0.2:
                    res.fail("block_not_from_its_context_row", site, "block %d of sample(n, context) maps to noise %.3f away from the mean of context row %d" % (i, dev, i),
                             rows=rows)
                    return res
            return res

        if what == "ks":
            N = 20000
            torch.manual_seed(case["seed"] + 7)
            c1 = ctx[:1] if ctx is not None else None
            out = guard(lambda: flow.sample(N, c1))
            if out is None or not bool(torch.isfinite(out).all()):
                res.inconclusive += 1
                return res
            xs = out.reshape(-1).numpy()
            lo, hi = xs.min(), xs.max()
            pad = 0.25 * (hi - lo) + 1.0
            # panels end at the samples themselves (plus a regular grid and the knots), so the CDF is evaluated AT every sample
            # by quadrature rather than interpolated across possibly narrow density spikes
            grid = np.unique(np.concatenate([np.linspace(lo - pad, hi + pad, 2001), xs]))
            if b.knots is not None:
                try:
                    grid = np.unique(np.concatenate([grid, b.knots().reshape(-1).numpy()]))
                except Exception:
                    pass

            def dens(z):
                zt = torch.tensor(z)[:, None]
                cc = c1.expand(len(z), -1) if c1 is not None else None
                with torch.no_grad():
                    return np.exp(flow.log_prob(zt, cc).numpy())
            try:
                cdf_vals = cumulative_quad_1d(dens, grid)
            except Exception as e:
                if type(e).__name__ == "InputOutsideDomain":
                    res.inconclusive += 1
                    return res
                raise
            mass = cdf_vals[-1]
            if not np.isfinite(mass) or abs(mass - 1) > 1e-3:
                res.inconclusive += 1     # tails outside the sampled range carry mass, or the density is C03's problem
                res.labels.append("mass_outside_grid")
                return res
            left = 0.5 * (1 - mass)
            dks = ks_statistic(xs, lambda z: np.interp(z, grid, cdf_vals + left))
            thr = ks_threshold(N)
            res.see_ratio(dks, thr)
            res.nontrivial = True
            if dks > thr:
                res.fail("samples_not_from_density", site, "1-D flow: KS distance between samples and integrated exp(log_prob) is %.4f > %.4f" % (dks, thr))
            return res

        if what == "mog_rows":
            # conditional mixture base: block i must follow the mixture conditioned on context row i (first noise coordinate)
            if ctx is None or case["base"] != "mademog":
                return res
            from vf.oracles import norm_cdf as _phi
            N = 4000
            torch.manual_seed(case["seed"] + 7)
            out = guard(lambda: flow.sample(N, ctx))
            if out is None or list(out.shape) != [rows, N, D]:
                if out is not None:
                    res.fail("shape", site, "sample(%d, context of %d rows) shape %s" % (N, rows, list(out.shape)))
                else:
                    res.inconclusive += 1
                return res
            if float(out.abs().max()) > 1e6:
                res.inconclusive += 1    # exp-type growth in the sampling direction (LogTanh^-1): the way back loses the small part
                res.labels.append("astronomical_samples")
                return res
            res.nontrivial = rows >= 2
            thr = ks_threshold(N)
            for i in range(rows):
                ci = ctx[i:i + 1]
                z = guard(lambda: flow.transform_to_noise(out[i], ci.expand(N, -1)))
                if z is None or not bool(torch.isfinite(z).all()):
                    res.inconclusive += 1
                    continue
                with torch.no_grad():
                    e = flow._embedding_net(ci)
                    o = base._made(torch.zeros(1, D), e).reshape(1, D, 2, 3)
                    w = torch.softmax(o[0, 0, :, 0], -1).numpy()
                    mu = o[0, 0, :, 1].numpy()
                    sd = (torch.nn.functional.softplus(o[0, 0, :, 2]) + base._made.epsilon).numpy()
                dks = ks_statistic(z[:, 0].numpy(), lambda t: sum(wk * _phi((t - mk) / sk) for wk, mk, sk in zip(w, mu, sd)))
                res.see_ratio(dks, thr)
                if dks > thr:
                    res.fail("block_not_from_its_context_row", site, "MADE-mixture base: block %d of sample(n, context) does not follow the mixture "
                             "conditioned on context row %d (KS %.4f > %.4f, %d rows)" % (i, i, dks, thr, rows), rows=rows)
                    return res
            return res

        if what == "noise":
            N = 20000
            torch.manual_seed(case["seed"] + 7)
            c1 = ctx[:1] if ctx is not None else None
            out = guard(lambda: flow.sample(N, c1))
            if out is None:
                res.inconclusive += 1
                return res
            x = out.reshape(N, D)
            if float(x.abs().max()) > 1e6:
                res.inconclusive += 1    # exp-type growth in the sampling direction (e.g. LogTanh^-1): mixing 1e20 with 1 loses the small part
                res.labels.append("astronomical_samples")
                return res
            z = guard(lambda: flow.transform_to_noise(x, c1.expand(N, -1) if c1 is not None else None))
            if z is None or not bool(torch.isfinite(z).all()):
                res.inconclusive += 1
                return res
            res.nontrivial = True
            thr = ks_threshold(N)
            for j in range(D):
                dks = ks_statistic(z[:, j].numpy(), norm_cdf)
                res.see_ratio(dks, thr)
                if dks > thr:
                    res.fail("noise_not_base_distributed", site, "transform_to_noise(sample) coordinate %d: KS distance to N(0,1) %.4f > %.4f" % (j, dks, thr))
                    return res
            return res
    raise AssertionError(what)
