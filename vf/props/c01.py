"""C01 - forward log-abs-det equals log|det Jacobian| of the map actually computed (autograd + FD Jacobians)."""
import numpy as np
import torch
from hypothesis import strategies as st

from vf import zoo
from vf.core import CaseResult, dtype_mode
from vf.oracles import cond64, fd_jac_in_batch, jac_in_batch, slogdet64

PROPERTY = "C01"
RULE = ("A zoo transform (any class, leaf or composite of 2-4 range-compatible parts, Inverse wrappers, flat 1-6 features or "
        "small images, context on/off, cache on/off with forward- or inverse-primed cache) x parameter regime "
        "(fresh/zero/equal/small/moderate/nonuniform) x a batch of 2-4 in-domain rows whose elements are special points "
        "(knots, end-points, tail bounds, kinks) with probability 0.4, evaluated in float64. Oracle: per row, slogdet of the "
        "autograd Jacobian of that row's outputs w.r.t. that row's inputs inside the batch; finite-difference Jacobian as a "
        "second opinion on smooth maps at non-special rows; hand-chained sum over parts for composites. Non-trivial: the "
        "row Jacobian is not a multiple of the identity. One case in 40: Naive/LU linear layers with 64-144 features and weights scaled by "
        "1e-3 / 1e3 (the determinant leaves the float64 range, its logarithm does not). Distinct = distinct case JSON.")
ASSUMPTIONS = ["torch autograd differentiates the executed forward code correctly (cross-checked by finite differences on smooth maps)",
               "BatchNorm is evaluated in eval mode (its training-mode log-det treats batch statistics as constants by convention)",
               "UMNN log-det is quadrature-approximate: allowance 5e-3 per transformed feature"]
EXPLANATION = "generated search only; not exhaustive"


def budget(tier):
    return {"examples": 12000 if tier == "quick" else 300000, "wall_s": 100 if tier == "quick" else 1500}


@st.composite
def _case(draw):
    c = draw(zoo.transform_case({}))
    c["inp"] = {"n": draw(st.integers(2, 4)), "seed": draw(st.integers(0, 10 ** 6)), "special": draw(st.sampled_from([0.0, 0.4, 0.4, 1.0])),
                "scale": draw(st.sampled_from([1.0, 1.0, 3.0, 0.3])), "ulp": draw(st.sampled_from([0, 0, 1, 2]))}
    c["prime"] = draw(st.sampled_from([None, None, "inverse", "forward"]))
    c["mode"] = draw(st.sampled_from(["eval", "eval", "eval", "train"]))
    c["double_twin"] = draw(st.integers(0, 5)) == 0
    if c["double_twin"]:
        c["inp"]["special"], c["inp"]["ulp"] = 0.0, 0
    if draw(st.integers(0, 39)) == 0:
        # a wide linear layer whose determinant leaves the floating-point range although its logarithm is modest
        c["shape"], c["dom"], c["ctx"] = [draw(st.sampled_from([64, 100, 128, 144]))], "R", None
        c["spec"] = draw(st.sampled_from([{"t": "naive", "orth": False, "cache": draw(st.booleans()), "seed": draw(st.integers(0, 1000))},
                                          {"t": "naive", "orth": True, "cache": False, "seed": draw(st.integers(0, 1000))},
                                          {"t": "lu", "identity_init": False, "cache": draw(st.booleans()), "seed": 0}]))
        c["init"]["regime"] = "fresh"
        c["wscale"] = draw(st.sampled_from([1.0, 1e-3, 1e-3, 1e3]))
        c["inp"]["n"], c["inp"]["special"], c["inp"]["ulp"] = 2, 0.0, 0
    return c


def case_strategy(tier):
    return _case()


def _has(spec, name):
    if spec["t"] == name:
        return True
    for k in ("parts",):
        if k in spec and any(_has(p, name) for p in spec[k]):
            return True
    if "of" in spec:
        return _has(spec["of"], name)
    return False


def run_case(case):
    res = CaseResult()
    twin = bool(case.get("double_twin"))
    # default: everything under a float64 default dtype; "double_twin": the way users get double precision - built under the float32
    # default, converted with .double(), fed float64 inputs (constants created in the default dtype would stay single precision)
    with dtype_mode(not twin):
        b = zoo.instantiate(case)
        m = b.module
        if twin:
            m.double()
            res.labels.append("double_twin")
        if case.get("wscale", 1.0) != 1.0:
            with torch.no_grad():
                if hasattr(m, "_weight"):
                    m._weight.mul_(case["wscale"])
                elif hasattr(m, "unconstrained_upper_diag"):
                    m.unconstrained_upper_diag.add_(float(np.log(case["wscale"])))
            res.labels.append("wide_scaled_linear")
        n = case["inp"]["n"]
        X, special = zoo.gen_inputs(b, n, case["inp"]["seed"], case["inp"]["special"], case["inp"]["scale"], dom=case["dom"],
                                    ulp=case["inp"].get("ulp", 0))
        ctx = zoo.gen_context(b, case.get("ctx"), n, case["inp"]["seed"]) if b.uses_ctx or case.get("ctx") else None
        if case.get("ctx") is None:
            ctx = None
        if twin:
            X = X.double()
            ctx = ctx.double() if ctx is not None else None
            special = torch.zeros_like(special)       # knots were located in single precision: no exact special points here
        train = case.get("mode") == "train" and not b.batch_coupled_in_train and not _has(case["spec"], "actnorm") \
            and not any(isinstance(mod, torch.nn.modules.batchnorm._BatchNorm) for mod in m.modules())
        if train:
            m.train()
        res.labels += ["mode:" + ("train" if train else "eval"), "regime:" + case["init"]["regime"], "dim:%dD" % (len(case["shape"]) + 1),
                       "ctx:%s" % (case.get("ctx") is not None), "top:" + case["spec"]["t"]] + ["tag:" + t for t in b.tags[:4]]

        def f(Z):
            return m(Z, ctx)

        if case.get("prime") and not train:
            # fill a linear cache (if any) through the OTHER direction first, before any forward call: a cache slot shared
            # between directions must still hold the right value for forward
            with torch.no_grad():
                if case["prime"] == "inverse" and b.invertible:
                    try:
                        m.inverse(X, ctx)          # X need not be in the inverse's domain: failures are C02/C17's business
                    except Exception as e:
                        res.labels.append("prime_inverse_raised:" + type(e).__name__)
                else:
                    try:
                        f(X)
                    except Exception:
                        pass
            res.labels.append("prime:" + case["prime"])

        out, ld = f(X)
        D = int(np.prod(case["shape"]))
        if not zoo.chain_moderate(b, X, ctx, case["spec"]):
            # exp/tanh/sigmoid/tan saturation: overflow and cancellation hit the autograd oracle too
            res.labels.append("saturating_chain")
            res.inconclusive += 1
            return res
        if tuple(ld.shape) != (n,):
            res.fail("logabsdet_shape", case["spec"]["t"], "logabsdet shape %s, want (%d,)" % (tuple(ld.shape), n))
            res.nontrivial = True
            return res
        if list(out.shape[1:]) != b.out_shape:
            res.fail("output_shape", case["spec"]["t"], "output shape %s, want %s" % (list(out.shape[1:]), b.out_shape))
        fo = lambda Z: f(Z)[0]  # noqa
        if not bool(torch.isfinite(ld).all()) or not bool(torch.isfinite(out).all()):
            # -inf is the right answer only where the Jacobian really is singular (e.g. a one-bin cubic whose end slopes
            # saturate at 3x the bin slope has f'(1/2) = 0)
            ok = bool(torch.isfinite(out).all()) and not bool(torch.isnan(ld).any()) and not bool((ld == float("inf")).any())
            if ok:
                for i in range(n):
                    if ld[i] == float("-inf") and np.isfinite(slogdet64(jac_in_batch(fo, X, i))[1]):
                        ok = False
            if ok:
                res.labels.append("singular_jacobian_consistent")
                res.inconclusive += 1
                return res
            if getattr(b, "param_max", [0.0])[0] > 10.0:
                # a conditioner fed with tail inputs (|x| up to 3 tail bounds) produced unnormalised parameters beyond +-10 (e.g.
                # derivative parameters ~ -38: sigmoid underflows below the rounding of the other polynomial coefficients);
                # outside the parameter domain these checks decide (DESIGN 2) - direct-parameter leaves cover +-8
                res.labels.append("extreme_conditioner_params")
                res.inconclusive += 1
                return res
            res.fail("nonfinite", case["spec"]["t"], "non-finite forward result: ld=%s" % ld.tolist())
            res.nontrivial = True
            return res
        if ld.dtype != X.dtype:
            res.labels.append("ld_dtype_mismatch")

        fo = lambda Z: f(Z)[0]  # noqa
        for i in range(n):
            J = jac_in_batch(fo, X, i)
            if J.shape[0] != J.shape[1]:
                res.fail("jacobian_not_square", case["spec"]["t"], "row Jacobian shape %s" % (tuple(J.shape),))
                break
            c = cond64(J)
            sp_row = bool(special[i].any())
            bad_oracle = (not np.isfinite(c)) or c > 1e10
            err = tol = None
            if not bad_oracle:
                s, ref = slogdet64(J)
                smin = float(np.linalg.svd(J.numpy(), compute_uv=False).min())
                # autograd's own entries carry absolute rounding ~u, i.e. relative error ~u/sigma_min in the determinant
                tol = 1e-9 * (1 + abs(ref)) * D + 1e-13 * c + 4e-15 * D / max(smin, 1e-300) + b.A_ld
                err = abs(float(ld[i]) - ref)
                eye = torch.eye(J.shape[0], dtype=J.dtype) * J[0, 0]
                if not torch.allclose(J, eye, rtol=0, atol=1e-12):
                    res.nontrivial = True
            if bad_oracle or err > tol:
                if sp_row:
                    # kink rule: at a special point (knot, end-point where clamp's autograd gradient is 0, kink of LeakyReLU
                    # ...) the map may be non-differentiable and autograd picks an arbitrary branch: the reported value
                    # must lie in the hull of the one-sided finite-difference log-determinants
                    lo, hi = zoo.one_sided_logdet_interval(fo, X, i, b.elementwise)
                    if lo is None:
                        res.inconclusive += 1
                        res.labels.append("kink_inconclusive")
                        continue
                    slack = 2e-5 * D * (1 + abs(lo) + abs(hi)) + b.A_ld
                    if lo - slack <= float(ld[i]) <= hi + slack:
                        res.labels.append("kink_one_sided_ok")
                        res.nontrivial = True
                        continue
                    if not b.elementwise or case["spec"]["t"] == "composite":
                        # inside a composite a kink of a later stage can coincide with the domain edge of an earlier one,
                        # so the composite's one-sided derivatives need not contain the stage-wise choice
                        res.inconclusive += 1
                        res.labels.append("kink_inconclusive")
                        continue
                    res.fail("logdet_mismatch_at_special_point", case["spec"]["t"],
                             "row %d: logabsdet=%.10g outside one-sided derivative hull [%.10g, %.10g]" % (i, float(ld[i]), lo, hi),
                             measured=max(lo - float(ld[i]), float(ld[i]) - hi), tol=slack)
                    break
                if bad_oracle:
                    res.inconclusive += 1
                    res.labels.append("illcond")
                    continue
                res.fail("logdet_mismatch", case["spec"]["t"],
                         "row %d: logabsdet=%.12g but log|det J|=%.12g (diff %.3g, tol %.3g)" % (i, float(ld[i]), ref, err, tol),
                         measured=err, tol=tol, row_special=sp_row)
                break
            res.see_ratio(err, tol)
            if b.smooth and not b.umnn and not bool(special[i].any()) and case["init"]["regime"] not in ("zero",) and D <= 8:
                try:
                    Jf = fd_jac_in_batch(fo, X, i, h=1e-6)
                    Jf2 = fd_jac_in_batch(fo, X, i, h=2.5e-7)
                except Exception as e:
                    if type(e).__name__ != "InputOutsideDomain":
                        raise
                    res.labels.append("fd_leaves_domain")  # the perturbed point left the box: no second opinion here
                    continue
                if float((Jf - Jf2).abs().max()) <= 1e-5 * (1 + float(Jf.abs().max())):
                    dJ = float((Jf - J).abs().max())
                    tolJ = 2e-5 * (1 + float(J.abs().max())) + b.A_out * 1e3
                    res.labels.append("fd_checked")
                    if dJ > tolJ:
                        res.fail("autograd_vs_fd", case["spec"]["t"], "row %d: autograd Jacobian differs from finite differences by %.3g" % (i, dJ),
                                 measured=dJ, tol=tolJ)
                        break
                else:
                    res.labels.append("fd_unstable")
        # composites: sum over the parts, hand-chained through the parts' public forward
        if b.parts and case["spec"]["t"] == "composite":
            with torch.no_grad():
                z, tot = X, torch.zeros(n, dtype=X.dtype)
                for p in b.parts:
                    z, l = p.module(z, ctx)
                    tot = tot + l
                out2, ld2 = f(X)
            if float((tot - ld2).abs().max()) > 1e-11 * (1 + float(tot.abs().max())) * len(b.parts):
                res.fail("composite_sum", "composite", "logabsdet %s != sum over parts %s" % (ld2.tolist(), tot.tolist()))
            if float((z - out2).abs().max()) > 1e-11 * (1 + float(z.abs().max())):
                res.fail("composite_chain", "composite", "outputs differ from hand-chained parts")
    return res
