"""C03 - a flow's log_prob is a normalised probability density (quadrature in 1-2 D + closed-form differential)."""
import json
import math

import numpy as np
import torch
from hypothesis import strategies as st

from vf import zoo
from vf.core import CaseResult, dtype_mode
from vf.oracles import adaptive_quad_1d, gl_panels, norm_cdf, norm_logpdf, quad_1d

PROPERTY = "C03"
RULE = ("Flows assembled from zoo transforms (compositions of depth 1-4: spline CDFs with/without tails via "
        "CompositeCDF(Sigmoid, .), affine/LU/QR/SVD/permutation layers, masked autoregressive and coupling layers, Inverse "
        "wrappers) over StandardNormal / DiagonalNormal / ConditionalDiagonalNormal / MADE-mixture (1-3 components, random masks) bases, 1-3 context rows, float64. (a) 1-D: all "
        "parameter regimes (fresh/zero/small/moderate/nonuniform/flatbin = one wide flat or narrow steep bin); integral of exp(log_prob(x|c)) by adaptive Gauss-Legendre "
        "quadrature on panels aligned with the knots and bisected wherever T moves through more than 2e-3 of base mass (aim only; spikes below 1e-13 relative width = inconclusive), over the image under inverse of the base's +-9 sigma box enlarged by "
        "20 % AND over a fixed box [-60, 60] (maps that are not onto lose mass in both); 2-D: bounded-distortion regime "
        "(fresh/small, <= 4 bins), iterated quadrature. Violation if |mass - 1| > 5e-5 + 10*err; err > 1e-5 = inconclusive. "
        "(b) any dimension <= 6: log_prob(x) = closed-form base log-density at T(x) + T's log-abs-det (1e-10). Non-trivial: "
        "(a) converged and the flow is not affine; (b) >= 2 parts or a context. Distinct = distinct case JSON.")
ASSUMPTIONS = ["quadrature with two independent panel layouts; unresolved integrals are inconclusive", "2-D only in a bounded-distortion regime "
               "(spikes of width < 1e-3 cannot be resolved to 1e-5)"]
EXPLANATION = "generated"


def budget(tier):
    return {"examples": 1000 if tier == "quick" else 60000, "wall_s": 110 if tier == "quick" else 1500}


NO = ["exp", "tanh", "sigmoid", "cauchycdf", "squeeze", "batchnorm"]


@st.composite
def _case(draw):
    what = draw(st.sampled_from(["mass1d"] * 9 + ["mass2d"] + ["differential"] * 5))
    if what == "mass1d":
        c = draw(zoo.transform_case({"img": False, "flat_max": 1, "doms": ["R"], "fn_box": False, "multiscale": False, "umnn": False, "exclude": NO,
                                     "regimes": ["fresh", "zero", "small", "moderate", "nonuniform", "flatbin"]}))
    elif what == "mass2d":
        c = draw(zoo.transform_case({"img": False, "flat_max": 2, "doms": ["R"], "fn_box": False, "multiscale": False, "umnn": False,
                                     "exclude": NO + ["logtanh", "leakyrelu"], "regimes": ["fresh", "small"], "nparts": [1, 2, 2, 3]}))
        if c["shape"] != [2]:
            c["shape"] = [2]
            c["spec"] = {"t": "lu", "identity_init": False, "cache": False}
            c["ctx"] = None
        pick = draw(st.integers(0, 5))
        if pick == 1:
            # orthogonal factors away from their unit-vector initialisation
            c["shape"], c["ctx"] = [2], None
            c["spec"] = draw(st.sampled_from([{"t": "qr", "nh": draw(st.integers(1, 3)), "cache": False, "seed": 0},
                                              {"t": "svd", "nh": 2, "identity_init": draw(st.booleans()), "cache": False, "seed": 0},
                                              {"t": "householder", "n": draw(st.integers(1, 3))}]))
            c["init"]["regime"] = "small"
        elif pick == 2:
            # two-pixel images (H != W, or two channels): per-pixel / per-channel log-dets must add up
            c["shape"], c["ctx"], c["dom"] = draw(st.sampled_from([[1, 1, 2], [1, 2, 1], [2, 1, 1]])), None, "R"
            c["spec"] = {"t": "composite", "parts": [{"t": "actnorm"}, {"t": "paffine", "shift": 0.3, "scale": 1.7}]}
            c["init"]["regime"] = draw(st.sampled_from(["small", "moderate"]))
        if pick == 0:
            # a gated linear unit whose single gate is broadcast over both features (context narrower than the data)
            c["shape"], c["ctx"] = [2], draw(st.sampled_from([1, 2]))
            c["spec"] = {"t": "composite", "parts": [{"t": "lu", "identity_init": False, "cache": False}, {"t": "glu"}]}
    else:
        c = draw(zoo.transform_case({"img": False, "flat_max": 6, "doms": ["R"], "fn_box": False, "umnn": False, "exclude": NO,
                                     "regimes": ["fresh", "small", "moderate", "nonuniform"]}))
    if what == "mass1d" and draw(st.integers(0, 5)) == 0:
        # squash with one temperature, spline on [0,1], un-squash with ANOTHER temperature: log-temperature bookkeeping
        # errors do not cancel here (they do inside CompositeCDF, which uses one Sigmoid for both directions)
        fam = draw(st.sampled_from(["cdf_lin", "cdf_quad", "cdf_rq"]))
        c["shape"], c["ctx"] = [1], None
        c["spec"] = {"t": "composite", "parts": [{"t": "sigmoid", "temp": draw(st.sampled_from([1.0, 0.6, 1.7])), "learn": draw(st.booleans())},
                                                 {"t": fam, "bins": draw(st.integers(1, 4)), "tails": None},
                                                 {"t": "logit", "temp": draw(st.sampled_from([1.0, 0.5, 2.0]))}]}
    c["what"] = what
    c["base"] = draw(st.sampled_from(["standard", "standard", "diagonal", "conditional"] + (["mademog", "mademog"] if what != "differential" else [])))
    c["mog"] = {"K": draw(st.integers(1, 3)), "res": draw(st.booleans()), "random_mask": draw(st.booleans()), "blocks": draw(st.integers(1, 2))}
    c["rows"] = draw(st.integers(1, 3))
    c["seed"] = draw(st.integers(0, 10 ** 6))
    c["narrow_base"] = draw(st.sampled_from([0.0, 0.0, 5.0, 7.0, 9.0])) if c["base"] == "conditional" else 0.0
    return c


def case_strategy(tier):
    return _case()


def _affine_only(spec):
    t = spec["t"]
    if t in ("composite",):
        return all(_affine_only(p) for p in spec["parts"])
    if t == "inverse":
        return _affine_only(spec["of"])
    return t in ("identity", "paffine", "perm", "randperm", "revperm", "naive", "lu", "qr", "svd", "householder", "actnorm")


class _Budget(Exception):
    pass


def _clamp_not_last(spec):
    """CompositeCDF ends in a logit that clamps at eps=1e-6 (declared constant): its range is [-13.8, 13.8], which is onto
    for all practical purposes only when it feeds the base distribution directly."""
    if spec["t"] != "composite":
        return False
    parts = spec["parts"]

    def has(p):
        return p["t"] == "compositecdf" or (p["t"] == "inverse" and has(p["of"]))
    return any(has(p) for p in parts[:-1])


def run_case(case):
    from nflows import distributions as dist
    from nflows.flows import Flow

    res = CaseResult()
    what = case["what"]
    with dtype_mode(True):
        torch.manual_seed(case["seed"])
        g = torch.Generator().manual_seed(case["seed"] + 1)
        b = zoo.instantiate(case)
        img2 = what == "mass2d" and len(b.out_shape) == 3 and int(np.prod(b.out_shape)) == 2 and case.get("ctx") is None
        if len(b.out_shape) != 1 and not img2:
            return res
        if case["what"] != "differential" and _clamp_not_last(case["spec"]):
            res.labels.append("sigmoid_clamp_before_other_parts")
            return res
        D, ctxk = (2 if img2 else b.out_shape[0]), case.get("ctx")
        ishape = list(b.out_shape) if img2 else None       # two-pixel images: integrated as points of R^2
        rows = case["rows"]
        ctx = torch.randn(rows, ctxk, generator=g) if ctxk is not None else None
        bk = case["base"]
        if img2:
            bk = "standard"
        if bk == "conditional" and ctxk is not None:
            enc = torch.nn.Linear(ctxk, 2 * D)
            with torch.no_grad():
                enc.weight.mul_(0.5)
                if case.get("narrow_base") and what != "mass2d":     # (the iterated 2-D rule has no spike hunting: wide bases only)
                    enc.bias[D:] -= case["narrow_base"]      # context rows that encode small base standard deviations (e^-5 .. e^-9)
            base = dist.ConditionalDiagonalNormal([D], context_encoder=enc)
            with torch.no_grad():
                p = enc(ctx)
            mu, ls = p[:, :D].numpy(), p[:, D:].numpy()
        elif bk == "diagonal":
            base = dist.DiagonalNormal([D])
            with torch.no_grad():
                base.mean_.copy_(torch.randn(1, D, generator=g))
                base.log_std_.copy_(torch.randn(1, D, generator=g) * 0.4)
            mu, ls = base.mean_.detach().numpy().repeat(max(1, rows), 0), base.log_std_.detach().numpy().repeat(max(1, rows), 0)
        elif bk == "mademog" and case["what"] != "differential":
            mg = case.get("mog", {"K": 2, "res": True, "random_mask": False, "blocks": 1})
            base = dist.MADEMoG(D, 8, ctxk, num_blocks=mg["blocks"], num_mixture_components=mg["K"], random_mask=mg["random_mask"],
                                use_residual_blocks=mg["res"] and not mg["random_mask"])
            # aim only: the mixture of a freshly initialised MADE sits within a few units of 0
            mu, ls = np.zeros((max(1, rows), D)), np.full((max(1, rows), D), math.log(1.5))
        else:
            base = dist.StandardNormal(ishape if img2 else [D])
            mu, ls = np.zeros((max(1, rows), D)), np.zeros((max(1, rows), D))
        flow = Flow(b.module, base)
        flow.eval()
        site = "Flow[%s]" % case["spec"]["t"]
        res.labels += ["what:" + what, "base:" + bk, "regime:" + case["init"]["regime"], "top:" + case["spec"]["t"], "ctx:%s" % (ctx is not None)]
        r = int(torch.randint(0, rows, (1,), generator=g)) if ctx is not None else 0
        c1 = ctx[r:r + 1] if ctx is not None else None

        evals = [0]

        def logp(z):
            zt = torch.tensor(np.asarray(z, dtype=np.float64).reshape(-1, D))
            if img2:
                zt = zt.reshape([-1] + ishape)
            evals[0] += len(zt)
            if evals[0] > (1200000 if what == "mass2d" else 3 * 10 ** 7):
                raise _Budget()
            cc = c1.expand(len(zt), -1) if c1 is not None else None
            with torch.no_grad():
                return flow.log_prob(zt, cc).numpy()

        if what == "differential":
            n = 3
            X, _ = zoo.gen_inputs(b, n, case["seed"] + 2, 0.3, 1.5, dom="R")
            C = ctx[[i % rows for i in range(n)]] if ctx is not None else None
            with torch.no_grad():
                try:
                    lp = flow.log_prob(X, C).numpy()
                    z, ld = b.module(X, C)
                except Exception as e:
                    if type(e).__name__ == "InputOutsideDomain":
                        res.inconclusive += 1
                        return res
                    raise
            if not (np.all(np.isfinite(lp)) and bool(torch.isfinite(z).all())):
                res.inconclusive += 1
                return res
            rr = [i % rows for i in range(n)] if ctx is not None else [0] * n
            ref = norm_logpdf(z.numpy(), mu[rr], ls[rr]).sum(1) + ld.numpy()
            err = float(np.abs(lp - ref).max())
            tol = 1e-10 * (1 + float(np.abs(ref).max()))
            res.see_ratio(err, tol)
            res.nontrivial = case["spec"]["t"] == "composite" or ctx is not None
            if err > tol:
                res.fail("log_prob_not_base_plus_logdet", "Flow", "log_prob differs from base log-density at T(x) plus log-abs-det by %.3g (base %s)" % (err, bk),
                         measured=err, tol=tol, base=bk)
            return res

        # ----- integration box from the inverse image of the base's +-9 sigma box (aim), and a fixed wide box
        breaks = []
        if b.knots is not None:
            try:
                breaks = [float(v) for v in b.knots().reshape(-1)]
            except Exception:
                breaks = []
        breaks += [float(v) for v in b.specials if abs(v) < 1e3]
        # panel edges on a geometric ladder around 0 and a regular grid in [-60, 60]: an adaptive rule whose first panels are
        # hundreds wide (LogTanh stretches the 9-sigma box to +-1e4) would otherwise step over all of the mass
        breaks += [sgn * 10.0 ** k for k in np.arange(-3, 7, 0.5) for sgn in (-1, 1)]
        breaks_2d = list(breaks)       # iterated 2-D quadrature: every extra panel edge multiplies the cost of each inner integral
        breaks += list(np.linspace(-60, 60, 6001))  # 0.02-wide first panels: knots of inner parts are not aligned after a linear/affine layer
        clamp_allow = 5e-4 if "compositecdf" in json.dumps(case["spec"]) or "logit" in json.dumps(case["spec"]) else 0.0

        if what == "mass1d":
            boxes = []
            mix = None
            if bk == "mademog" and D == 1:
                with torch.no_grad():
                    o_ = base._made(torch.zeros(1, 1), c1).reshape(-1, 3)
                mix = (torch.softmax(o_[:, 0], 0).numpy(), o_[:, 1].numpy(), (torch.nn.functional.softplus(o_[:, 2]) + base._made.epsilon).numpy())
            try:
                with torch.no_grad():
                    zlo = torch.tensor([[mu[r, 0] - 9 * math.exp(ls[r, 0])]])
                    zhi = torch.tensor([[mu[r, 0] + 9 * math.exp(ls[r, 0])]])
                    if mix is not None:
                        zlo = torch.tensor([[float((mix[1] - 9 * mix[2]).min())]])
                        zhi = torch.tensor([[float((mix[1] + 9 * mix[2]).max())]])
                    xa = float(b.module.inverse(zlo, c1)[0])
                    xb = float(b.module.inverse(zhi, c1)[0])
                if np.isfinite(xa) and np.isfinite(xb) and abs(xa) < 1e6 and abs(xb) < 1e6:
                    lo, hi = min(xa, xb), max(xa, xb)
                    pad = 0.2 * (hi - lo) + 1e-3
                    boxes.append((lo - pad, hi + pad))
            except Exception:
                pass
            if not boxes:
                # where the mass sits is unknown (e.g. LogTanh squeezes e^30 into 13): no box can be trusted
                res.inconclusive += 1
                res.labels.append("mass_location_unknown")
                return res
            if boxes[0][0] > -60.0 and boxes[0][1] < 60.0:
                boxes.append((-60.0, 60.0))   # independent of the inverse: catches maps that are not onto
            masses = []


            def base_cdf_z(y):
                if mix is not None:
                    return sum(w_ * norm_cdf((y - m_) / s_) for w_, m_, s_ in zip(*mix))
                return norm_cdf((y - mu[r, 0]) / math.exp(ls[r, 0]))

            def base_cdf(xs):     # aim only: how much base mass lies left of T(x)
                with torch.no_grad():
                    y = b.module(torch.tensor(xs)[:, None], c1.expand(len(xs), -1) if c1 is not None else None)[0][:, 0].numpy()
                return base_cdf_z(y)

            # declared clamp: a final Logit / CompositeCDF cannot return values beyond logit(1 - eps) / temperature (+-13.8 at
            # temperature 1, +-6.9 at 2): the base mass outside that range is not reachable - by the declared constant, not a defect
            last = case["spec"]["parts"][-1] if case["spec"]["t"] == "composite" else case["spec"]
            if last["t"] in ("logit", "compositecdf"):
                try:
                    lm = b.parts[-1].module if case["spec"]["t"] == "composite" else b.module
                    sg = lm._transform if last["t"] == "logit" else lm._transforms[0]
                    R_ = float(math.log((1 - sg.eps) / sg.eps) / float(sg.temperature))
                    Rlo, Rhi = -R_, R_
                    if last["t"] == "compositecdf":
                        # the sigmoid's clamp is applied BEFORE the inner CDF: the reachable range is logit(cdf([eps, 1 - eps])), which
                        # a steep first or last bin (slope 9: cdf(eps) = 9e-6) pulls in from +-19.7 to +-16.6 at temperature 0.7
                        with torch.no_grad():
                            yy_ = lm(torch.tensor([[-1e4], [1e4]]), None)[0][:, 0]
                        if bool(torch.isfinite(yy_).all()):
                            Rlo, Rhi = max(Rlo, float(yy_.min())), min(Rhi, float(yy_.max()))
                    clamp_allow = clamp_allow + float(base_cdf_z(np.array([Rlo]))[0]) + 1.0 - float(base_cdf_z(np.array([Rhi]))[0])
                except Exception:
                    pass

            def refine(xs):
                """bisects panels across which T moves through more than 2e-3 of base mass (chains of flat and steep bins squeeze
                   the whole density into spikes far narrower than any fixed grid)"""
                xs = np.unique(np.asarray(xs, dtype=np.float64))
                for _ in range(60):
                    u = base_cdf(xs)
                    wide = (np.abs(np.diff(u)) > 2e-3) & (np.diff(xs) > 1e-13 * (1 + np.abs(xs[:-1])))
                    if not wide.any() or len(xs) > 200000:
                        break
                    xs = np.unique(np.concatenate([xs, 0.5 * (xs[:-1][wide] + xs[1:][wide])]))
                return xs, bool(wide.any())
            for lo, hi in boxes:
                try:
                    f = lambda x: np.exp(logp(x))  # noqa
                    try:
                        br_box, unresolved = refine([lo, hi] + [v_ for v_ in breaks if lo < v_ < hi])
                    except Exception:
                        br_box, unresolved = breaks, False
                    if unresolved:
                        res.labels.append("spike_below_resolution")
                        continue
                    v, e, _ = quad_1d(f, lo, hi, list(br_box), tol=1e-8, max_evals=300000)
                    edge = max(float(f(np.array([lo]))[0]), float(f(np.array([hi]))[0]))
                except Exception as e:
                    if type(e).__name__ == "InputOutsideDomain":
                        continue
                    raise
                if not np.isfinite(v) or e > 1e-5 or edge > 1e-9:
                    continue
                if v < 1 - (5e-5 + 10 * e + clamp_allow):
                    # mass seems to be missing: before believing it, look for spikes narrower than every panel.  T is monotone, so
                    # the base mass between two abscissae is known (aim only); panels whose quadrature falls short of it by more
                    # than 1e-6 are bisected until the quadrature sees what is there.  A density that really is too small keeps
                    # its deficit however the panels are cut, and the verdict below stays with the quadrature.
                    try:
                        xs = np.unique(np.concatenate([np.asarray(br_box, dtype=np.float64), np.linspace(lo, hi, 2001)]))
                        xs = xs[(xs >= lo) & (xs <= hi)]
                        for _ in range(45):
                            q = gl_panels(f, xs, 15)
                            du = np.abs(np.diff(base_cdf(xs)))
                            short = ((du - q) > 1e-6) & (np.diff(xs) > 1e-13 * (1 + np.abs(xs[:-1])))
                            if not short.any() or int(short.sum()) > 20000:
                                break
                            xs = np.unique(np.concatenate([xs, 0.5 * (xs[:-1][short] + xs[1:][short])]))
                        v2, e2, _ = quad_1d(f, lo, hi, list(xs), tol=1e-8, max_evals=600000)
                        res.labels.append("spike_hunt")
                        if np.isfinite(v2) and e2 <= 1e-5:
                            v, e = v2, e2
                    except _Budget:
                        continue
                masses.append((v, e, lo, hi))
            if not masses:
                res.inconclusive += 1
                return res
            res.nontrivial = not _affine_only(case["spec"])
            # the largest converged mass is the best lower bound on the total; it must also not exceed 1
            v, e, lo, hi = max(masses, key=lambda m: m[0])
            # (Sigmoid.eps: beyond |x| ~ 13.8 CompositeCDF's output is clamped while its log-det keeps decaying like e^-|x|;
            #  with a shifted/wide base that tail carries up to ~1e-4 of spurious mass - the declared constant, not a defect)
            tol = 5e-5 + 10 * e + clamp_allow
            res.see_ratio(abs(v - 1), tol)
            if abs(v - 1) > tol:
                res.fail("not_normalised", site, "integral of exp(log_prob) over [%.4g, %.4g] = %.8f (err est %.1g); base %s, regime %s" % (
                    lo, hi, v, e, bk, case["init"]["regime"]), measured=abs(v - 1), tol=tol, base=bk, dim=1)
            return res

        if what == "mass2d":
            try:
                with torch.no_grad():
                    corners = torch.tensor([[mu[r, 0] + sx * 9 * math.exp(ls[r, 0]), mu[r, 1] + sy * 9 * math.exp(ls[r, 1])]
                                            for sx in (-1, 0, 1) for sy in (-1, 0, 1)])
                    xc = b.module.inverse(corners.reshape([9] + ishape) if img2 else corners, c1.expand(9, -1) if c1 is not None else None)[0].reshape(9, 2).numpy()
            except Exception:
                res.inconclusive += 1
                return res
            if not np.all(np.isfinite(xc)) or np.abs(xc).max() > 1e3:
                res.inconclusive += 1
                return res
            lo = xc.min(0) - 0.3 * (xc.max(0) - xc.min(0)) - 0.5
            hi = xc.max(0) + 0.3 * (xc.max(0) - xc.min(0)) + 0.5
            br = sorted(set(breaks_2d))
            br0, br1 = list(br), list(br)
            # aim only: where do draws of the base land in data space?  (a cubic spline on [-40, 40] can squeeze the whole bulk of
            # the base into a strip 0.07 wide which 8 panels over the corner box never touch)
            try:
                with torch.no_grad():
                    ga = torch.Generator().manual_seed(case["seed"] + 3)
                    if bk == "mademog":
                        torch.manual_seed(case["seed"] + 3)
                        zs = base.sample(1500, c1).reshape(-1, 2) if c1 is not None else base.sample(1500).reshape(-1, 2)
                    else:
                        zs = torch.tensor(mu[r]) + torch.exp(torch.tensor(ls[r])) * torch.randn(1500, 2, generator=ga)
                    xs_ = b.module.inverse(zs.reshape([-1] + ishape) if img2 else zs, c1.expand(len(zs), -1) if c1 is not None else None)[0].reshape(-1, 2).numpy()
                if np.all(np.isfinite(xs_)) and np.abs(xs_).max() < 1e3:
                    qs = np.percentile(xs_, [0, 0.5, 2, 10, 30, 50, 70, 90, 98, 99.5, 100], axis=0)
                    sd_ = xs_.std(0) + 1e-12
                    for d_, brd in ((0, br0), (1, br1)):
                        brd += list(qs[:, d_]) + [qs[0, d_] - k_ * sd_[d_] for k_ in (1, 3, 6)] + [qs[-1, d_] + k_ * sd_[d_] for k_ in (1, 3, 6)]
                        lo[d_] = min(lo[d_], qs[0, d_] - 8 * sd_[d_])
                        hi[d_] = max(hi[d_], qs[-1, d_] + 8 * sd_[d_])
                    br0, br1 = sorted(set(br0)), sorted(set(br1))
            except Exception:
                pass

            inner_err = [0.0]

            def outer(x0s):
                out = np.zeros(len(x0s))
                for k, x0 in enumerate(x0s):
                    gq = lambda y: np.exp(logp(np.stack([np.full_like(y, x0), y], 1)))  # noqa
                    v, e, _ = adaptive_quad_1d(gq, lo[1], hi[1], br1, tol=1e-7, max_evals=4000, init_panels=8)
                    out[k] = v
                    inner_err[0] = max(inner_err[0], e)
                return out
            try:
                # (single-layout adaptive rule with few initial panels in both directions: the two-layout quad_1d starts from
                #  161 panels = 3500 evaluations per integral, i.e. 1e7 density evaluations per case)
                v, e, _ = adaptive_quad_1d(outer, lo[0], hi[0], br0, tol=1e-6, max_evals=1500, init_panels=8)
            except Exception as ex:
                if isinstance(ex, _Budget):
                    res.inconclusive += 1       # evaluation budget (case count / generated size, not wall clock) exhausted
                    res.labels.append("2d_budget")
                    return res
                if type(ex).__name__ == "InputOutsideDomain":
                    res.inconclusive += 1
                    return res
                raise
            e = e + inner_err[0] * (hi[0] - lo[0])
            if not np.isfinite(v) or e > 1e-5:
                res.inconclusive += 1
                res.labels.append("2d_unresolved")
                return res
            res.nontrivial = not _affine_only(case["spec"])
            tol = 5e-5 + 10 * e
            if v < 1 - tol:
                # before a deficit is believed: the same integral from three times as many initial panels in both directions (mass
                # that sits between coarse panels shows up; a density that really is too small keeps its deficit)
                try:
                    evals[0] = -4000000          # (an extra evaluation budget for this one rerun)
                    v_f, e_f, _ = adaptive_quad_1d(
                        lambda x0s: np.array([adaptive_quad_1d(lambda y, x0=x0: np.exp(logp(np.stack([np.full_like(y, x0), y], 1))), lo[1], hi[1], br1,
                                                               tol=1e-7, max_evals=6000, init_panels=24)[0] for x0 in x0s]),
                        lo[0], hi[0], br0, tol=1e-6, max_evals=3000, init_panels=24)
                    res.labels.append("2d_fine_rerun")
                    if np.isfinite(v_f) and abs(v_f - v) > tol:
                        res.inconclusive += 1      # the two resolutions disagree: not resolved
                        res.labels.append("2d_unresolved")
                        return res
                except _Budget:
                    res.inconclusive += 1
                    res.labels.append("2d_budget")
                    return res
            res.see_ratio(abs(v - 1), tol)
            if abs(v - 1) > tol:
                res.fail("not_normalised", site, "2-D integral of exp(log_prob) = %.7f (err est %.1g); base %s" % (v, e, bk), measured=abs(v - 1), tol=tol, base=bk, dim=2)
            return res
    raise AssertionError(what)
