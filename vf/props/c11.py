"""C11 - linear-family accessors (weight, weight_inverse, logabsdet, matrix, forward, inverse) describe one affine map."""
import numpy as np
import torch
from hypothesis import strategies as st

from vf.core import CaseResult, dtype_mode

PROPERTY = "C11"
RULE = ("NaiveLinear (both inits) / LULinear (both) / QRLinear / SVDLinear (both) / HouseholderSequence / OneByOneConvolution (per-pixel W x[perm] + b on 2x2, 1x3, 3x2 images) x features 1-8 (and 32/64/128) x Householder "
        "counts 1..2*features+3 (odd, even, > features; SVD even) x parameter state (fresh; perturbed sigma 0.1-1; reflection "
        "vectors rescaled by 1e-4..1e2; bias != 0) x float64 and float32 x cache on/off. numpy float64 reference: W = weight(); "
        "forward(x) = x W^T + b; inverse(y) = (y-b) W^-T; W weight_inverse() = I; logabsdet() = slogdet(W); the combined "
        "accessors equal the separate ones; Householder: matrix()^T matrix() = I, forward(x) = x matrix()^T, log-det 0; every "
        "constructor call that returns yields finite parameters and a finite invertible W. Non-trivial: W is neither identity "
        "nor diagonal. Weights also scaled by 1e-3 .. 1e3 (|det| leaves the float range, log|det| does not); optionally the object first "
        "makes a cached evaluation-mode call, has its cache switched off and returns to training mode before the parameters change. "
        "Float64 models are built under a float64 default dtype or under the float32 default and converted with .double(); forward/inverse "
        "results must have the dtype of the inputs. Distinct = distinct case JSON.")
ASSUMPTIONS = ["numpy.linalg (slogdet, inv, cond) as reference", "tolerances scale with cond(W); cond > 1e8 is inconclusive"]
EXPLANATION = "generated; the (class, features<=8, householder count) grid is covered many times over"


def budget(tier):
    return {"examples": 8000 if tier == "quick" else 200000, "wall_s": 100 if tier == "quick" else 1200}


@st.composite
def _case(draw):
    cls = draw(st.sampled_from(["naive", "lu", "qr", "svd", "householder", "naive", "lu", "qr", "svd", "householder", "conv"]))
    f = draw(st.integers(1, 8)) if draw(st.integers(0, 11)) else draw(st.sampled_from([32, 64, 128]))
    nh = draw(st.integers(1, 2 * f + 3)) if f <= 8 else draw(st.sampled_from([1, 4, 9]))
    if cls == "svd":
        nh = 2 * max(1, nh // 2)
    return {"cls": cls, "features": f, "nh": nh, "init": draw(st.booleans()), "cache": draw(st.booleans()),
            "state": draw(st.sampled_from(["fresh", "perturbed", "perturbed", "qscale", "sgd"])), "sigma": draw(st.sampled_from([0.1, 0.5, 1.0])),
            "qscale": draw(st.sampled_from([1e-4, 1e-3, 1e-2, 0.1, 10.0, 100.0])), "bias": draw(st.booleans()),
            "precise": draw(st.sampled_from([True, True, False])), "seed": draw(st.integers(0, 10 ** 6)), "eval": draw(st.booleans()), "converted": draw(st.booleans()),
            "first": draw(st.sampled_from(["forward", "inverse"])), "wscale": draw(st.sampled_from([1.0, 1.0, 1.0, 1e-3, 1e3, 30.0])),
            "prelude": draw(st.sampled_from([None, None, "cached_call_then_cache_off"]))}


def case_strategy(tier):
    return _case()


def run_case(case):
    from nflows import transforms as T

    res = CaseResult()
    f, cls = case["features"], case["cls"]
    converted = bool(case["precise"] and case.get("converted"))
    with dtype_mode(case["precise"] and not converted):
        # converted: built under the float32 default, then .double(), float64 inputs (the usual way a double-precision model comes about)
        dtype = torch.float64 if case["precise"] else torch.float32
        tol = 1e-9 if case["precise"] else 3e-4
        g = torch.random.get_rng_state()
        torch.manual_seed(case["seed"])
        try:
            if cls == "naive":
                m = T.NaiveLinear(f, orthogonal_initialization=case["init"], using_cache=case["cache"])
            elif cls == "lu":
                m = T.LULinear(f, using_cache=case["cache"], identity_init=case["init"])
            elif cls == "qr":
                m = T.QRLinear(f, num_householder=case["nh"], using_cache=case["cache"])
            elif cls == "svd":
                m = T.SVDLinear(f, num_householder=case["nh"], using_cache=case["cache"], identity_init=case["init"])
            elif cls == "conv":
                f = min(f, 6)
                m = T.OneByOneConvolution(f, using_cache=case["cache"], identity_init=case["init"])
            else:
                m = T.HouseholderSequence(f, case["nh"])
        finally:
            torch.random.set_rng_state(g)
        if converted:
            m = m.double()
        site = type(m).__name__
        res.labels += ["cls:" + cls, "state:" + case["state"], "dtype:%s" % ("f64" if case["precise"] else "f32"),
                       "nh>%s" % ("f" if case["nh"] > f else "=<f") if cls in ("qr", "svd", "householder") else "nh:-"]
        gen = torch.Generator().manual_seed(case["seed"] + 1)
        prelude = case.get("prelude") and cls != "householder"
        if prelude:
            # the object has a past: a cached evaluation-mode call, caching switched off, back to training mode - the parameter
            # changes below then happen "during training"; afterwards evaluation mode and caching are switched on again
            with torch.no_grad():
                m.eval()
                m.use_cache(True)
                x0 = torch.randn([2, f] + ([2, 2] if cls == "conv" else []), generator=gen, dtype=torch.float64).to(dtype)
                (m(x0) if case["first"] == "forward" else m.inverse(x0))
                m.use_cache(False)
                m.train()
            res.labels.append("prelude")
        with torch.no_grad():
            for n, p in m.named_parameters():
                if not bool(torch.isfinite(p).all()):
                    res.fail("nonfinite_parameters", site, "constructor produced non-finite parameter %s" % n, features=f, nh=case["nh"])
                    return res
            if case["state"] in ("perturbed", "qscale"):
                for n, p in m.named_parameters():
                    if n.endswith("bias"):
                        continue
                    p.add_(torch.randn(p.shape, generator=gen, dtype=torch.float64).to(p.dtype) * case["sigma"])
            if case["state"] == "qscale":
                for n, p in m.named_parameters():
                    if n.endswith("q_vectors"):
                        p.mul_(case["qscale"])   # a reflection does not depend on the length of its vector
            if case["bias"] and hasattr(m, "bias"):
                m.bias.copy_(torch.randn(f, generator=gen, dtype=torch.float64).to(dtype))
        if case["state"] == "sgd":
            opt = torch.optim.SGD(m.parameters(), lr=0.3)
            x = torch.randn([4, f] + ([2, 2] if cls == "conv" else []), generator=gen, dtype=torch.float64).to(dtype)
            y, ld = m(x)
            (y.pow(2).mean() - ld.mean()).backward()
            opt.step()
        if case.get("wscale", 1.0) != 1.0 and cls in ("naive", "svd", "lu"):
            # |det W| far from 1 (log|det| = features * log(scale)): the determinant itself leaves the float range, its logarithm does not
            with torch.no_grad():
                if cls == "naive":
                    m._weight.mul_(case["wscale"])
                elif cls == "svd":
                    m.unconstrained_diagonal.add_(float(np.log(case["wscale"])))     # diagonal = exp-type of this parameter
                else:
                    m.unconstrained_upper_diag.add_(float(np.log(case["wscale"])))
            res.labels.append("wscale:%g" % case["wscale"])
        if case["eval"] or prelude:
            m.eval()
        if prelude:
            m.use_cache(True)
        x = torch.randn(3, f, generator=gen, dtype=torch.float64).to(dtype)
        xn = x.double().numpy()

        def close(a, b, scale, what, extra=1.0):
            a, b = np.asarray(a, dtype=np.float64), np.asarray(b, dtype=np.float64)
            if a.shape != b.shape:
                res.fail("shape", site, "%s: shape %s vs %s" % (what, a.shape, b.shape))
                return False
            if not np.all(np.isfinite(a)):
                res.fail("nonfinite", site, "%s is not finite" % what, features=f, nh=case["nh"], state=case["state"])
                return False
            err = float(np.abs(a - b).max()) if a.size else 0.0
            t = tol * extra * scale
            res.see_ratio(err, t)
            if err > t:
                res.fail("accessor_mismatch", site, "%s: max difference %.3g > %.3g" % (what, err, t), measured=err, tol=t, what=what.split(" ")[0],
                         state=case["state"])
                return False
            return True

        with torch.no_grad():
            if cls == "householder":
                M = m.matrix().double().numpy()
                if not close(M.T @ M, np.eye(f), 1.0, "matrix()^T matrix() vs I"):
                    return res
                y, ld = m(x)
                if not close(y.double().numpy(), xn @ M.T, 1 + np.abs(xn).max(), "forward(x) vs x matrix()^T"):
                    return res
                xi, ldi = m.inverse(y)
                close(xi.double().numpy(), xn, 1 + np.abs(xn).max(), "inverse(forward(x)) vs x")
                if float(ld.abs().max()) != 0 or float(ldi.abs().max()) != 0:
                    res.fail("logdet", site, "orthogonal transform reports log-det %r" % ld.tolist())
                res.nontrivial = not np.allclose(M, np.diag(np.diag(M)))
                return res
            if cls == "conv":
                # the LU accessors describe the per-pixel map applied AFTER the fixed channel permutation:
                # y[:, :, i, j] = W x[:, perm, i, j] + b, log-det = H*W*log|det W|; inverse undoes exactly that
                hw = [[2, 2], [1, 3], [3, 2]][case["seed"] % 3]
                xi_ = torch.randn([3, f] + hw, generator=gen, dtype=torch.float64).to(dtype)
                Wc, bc = m.weight().double().numpy(), m.bias.double().numpy()
                perm = m.permutation._permutation.numpy()
                condc = np.linalg.cond(Wc)
                if not np.isfinite(condc) or condc > (1e8 if case["precise"] else 1e3):
                    res.inconclusive += 1
                    return res
                ladc = np.linalg.slogdet(Wc)[1]
                xn_ = xi_.double().numpy()
                ref = np.einsum("oc,bchw->bohw", Wc, xn_[:, perm]) + bc[None, :, None, None]
                res.nontrivial = not np.allclose(Wc, np.diag(np.diag(Wc))) or not np.array_equal(perm, np.arange(f))
                for d in ([case["first"], "inverse" if case["first"] == "forward" else "forward"]):
                    if d == "forward":
                        y_, ld_ = m(xi_)
                        if not (close(y_.double().numpy(), ref, 1 + np.abs(ref).max(), "conv forward vs W x[perm] + b", condc) and
                                close(ld_.double().numpy(), np.full(3, hw[0] * hw[1] * ladc), 1 + abs(ladc) * hw[0] * hw[1], "conv forward log-det vs H*W*slogdet", condc)):
                            return res
                    else:
                        yin_ = torch.tensor(ref).to(dtype)
                        xb_, ldi_ = m.inverse(yin_)
                        if not (close(xb_.double().numpy(), xn_, 1 + np.abs(xn_).max(), "conv inverse(W x[perm] + b) vs x", condc * (1 if case["precise"] else 10)) and
                                close(ldi_.double().numpy(), np.full(3, -hw[0] * hw[1] * ladc), 1 + abs(ladc) * hw[0] * hw[1], "conv inverse log-det", condc)):
                            return res
                return res
            order = [case["first"], "inverse" if case["first"] == "forward" else "forward"]
            W = m.weight().double().numpy()
            b = m.bias.double().numpy()
            if not np.all(np.isfinite(W)):
                res.fail("nonfinite", site, "weight() is not finite", features=f, nh=case["nh"], state=case["state"])
                return res
            cond = np.linalg.cond(W)
            if not np.isfinite(cond) or cond > (1e8 if case["precise"] else 1e3):
                res.inconclusive += 1
                return res
            sign, lad = np.linalg.slogdet(W)
            Winv = np.linalg.inv(W)
            res.nontrivial = not np.allclose(W, np.diag(np.diag(W)))
            ok = close(float(m.logabsdet()), lad, 1 + abs(lad), "logabsdet() vs slogdet(weight())", cond)
            ok = ok and close(m.weight_inverse().double().numpy(), Winv, 1 + np.abs(Winv).max(), "weight_inverse() vs inv(weight())", cond)
            if ok:
                w2, l2 = m.weight_and_logabsdet()
                ok = close(w2.double().numpy(), W, 1 + np.abs(W).max(), "weight_and_logabsdet()[0] vs weight()") and \
                    close(float(l2), lad, 1 + abs(lad), "weight_and_logabsdet()[1] vs slogdet", cond)
            if ok:
                wi2, l3 = m.weight_inverse_and_logabsdet()
                ok = close(wi2.double().numpy(), Winv, 1 + np.abs(Winv).max(), "weight_inverse_and_logabsdet()[0] vs inv(weight())", cond) and \
                    close(float(l3), lad, 1 + abs(lad), "weight_inverse_and_logabsdet()[1] vs slogdet (must be +log|det W|)", cond)
            for d in order:
                if not ok:
                    break
                if d == "forward":
                    y, ld = m(x)
                    if y.dtype != x.dtype or ld.dtype != x.dtype:
                        res.fail("dtype", site, "forward of a %s model on %s inputs returns %s / %s" % (dtype, x.dtype, y.dtype, ld.dtype), direction="forward")
                        return res
                    ok = close(y.double().numpy(), xn @ W.T + b, 1 + np.abs(xn @ W.T + b).max(), "forward(x) vs x W^T + b") and \
                        close(ld.double().numpy(), np.full(3, lad), 1 + abs(lad), "forward log-det vs slogdet", cond)
                else:
                    yin = x
                    xi, ldi = m.inverse(yin)
                    if xi.dtype != x.dtype or ldi.dtype != x.dtype:
                        res.fail("dtype", site, "inverse of a %s model on %s inputs returns %s / %s" % (dtype, x.dtype, xi.dtype, ldi.dtype), direction="inverse")
                        return res
                    ref = (xn - b) @ Winv.T
                    ok = close(xi.double().numpy(), ref, 1 + np.abs(ref).max(), "inverse(y) vs (y-b) W^-T", cond) and \
                        close(ldi.double().numpy(), np.full(3, -lad), 1 + abs(lad), "inverse log-det vs -slogdet", cond)
    return res
