"""C09 - spline transformers are increasing bijections of their box, identity in the tails (sorted input grids)."""
import numpy as np
import torch
from hypothesis import strategies as st

from vf import zoo
from vf.core import CaseResult, dtype_mode

PROPERTY = "C09"
RULE = ("One spline (linear/quadratic/cubic/rational-quadratic; function API with a generated box, or unconstrained_* with a "
        "tail bound), 1-8 bins, parameter regime zero/equal/random(sigma 0.3-3)/nonuniform(+-8), float32 and float64, evaluated on "
        "a SORTED grid made of every knot, its 1/2/8-ulp neighbours, the end-points, +-tail bound and neighbours, ~200 uniform "
        "and ~60 random interior points and (tails) outside points up to 10x the bound; the inverse direction on the image "
        "grid. Oracles: f(left)=bottom, f(right)=top within 8 ulp; bottom<=f<=top exactly; non-decreasing along the grid and "
        "strictly increasing where slope*gap exceeds rounding; continuity across knots and the tail junction; f(x)==x bitwise "
        "with zero log-det outside the bound; exp(logabsdet) finite and positive. Non-trivial: >= 2 bins or non-uniform "
        "parameters, and the grid holds knots and end-points (always). Distinct = distinct case JSON.")
ASSUMPTIONS = ["knot locations are replicated from the documented parameterisation only to aim inputs (never as an oracle)",
               "cubic family: bin floors >= 1e-3 (root selection accepts roots within eps=1e-5 of a bin)"]
EXPLANATION = "generated search; each case evaluates ~600 inputs in both directions"


def budget(tier):
    return {"examples": 12000 if tier == "quick" else 400000, "wall_s": 100 if tier == "quick" else 1500}


@st.composite
def _case(draw):
    if draw(st.integers(0, 11)) == 0:
        # the tail contract one level up: piecewise coupling layers (with and without an unconditional transform of the identity
        # features) and the CDF classes, tails='linear', inputs beyond the tail bound in every feature
        return {"layer": draw(st.sampled_from(["coupling", "coupling", "cdf"])), "fam": draw(st.sampled_from(["lin", "quad", "cub", "rq"])),
                "bins": draw(st.integers(1, 5)), "tb": draw(st.sampled_from([0.5, 1.0, 3.0, 0.1, 40.0])), "uncond": draw(st.booleans()),
                "img": draw(st.booleans()), "precise": draw(st.booleans()), "seed": draw(st.integers(0, 10 ** 6)),
                "regime": draw(st.sampled_from(["fresh", "small", "moderate"]))}
    fam = draw(st.sampled_from(["lin", "quad", "cub", "rq"]))
    bins = draw(st.integers(1, 8))
    c = {"fam": fam, "bins": bins, "precise": draw(st.booleans()),
         "regime": draw(st.sampled_from(["zero", "equal", "random", "random", "nonuniform", "nonuniform", "flatbin", "flatbin", "fresh"])),
         "sigma": draw(st.sampled_from([0.3, 1.0, 3.0])), "seed": draw(st.integers(0, 10 ** 6))}
    if draw(st.booleans()):
        c["tb"] = draw(st.sampled_from([1.0, 0.5, 3.0, 5.0, 0.01, 40.0, 1e3, 0.1, 0.3]))
    else:
        c["box"] = draw(zoo.boxes())
    if draw(st.integers(0, 3)) == 0 and fam != "lin":
        lo = 1e-3 if fam == "cub" else 1e-5
        c["extra"] = {"min_bin_width": draw(st.sampled_from([1e-3, 0.02, 0.05, lo])),
                      "min_bin_height": draw(st.sampled_from([1e-3, 0.03, 0.1, lo]))}
        if fam == "rq":
            c["extra"]["min_derivative"] = draw(st.sampled_from([1e-3, 0.05, 1e-5]))
        if c["extra"]["min_bin_width"] * bins > 1 or c["extra"]["min_bin_height"] * bins > 1:
            c["extra"] = {}
    return c


def case_strategy(tier):
    return _case()


def _neighbours(t, ks=(1, 2, 8)):
    out = [t]
    up, dn = t.clone(), t.clone()
    inf = torch.full_like(t, float("inf"))
    k_done = 0
    for k in ks:
        for _ in range(k - k_done):
            up = torch.nextafter(up, inf)
            dn = torch.nextafter(dn, -inf)
        k_done = k
        out += [up.clone(), dn.clone()]
    return torch.cat(out)


def _ulp(x, dtype):
    x = torch.tensor(abs(float(x)), dtype=dtype)
    return float(torch.nextafter(x, torch.tensor(float("inf"), dtype=dtype)) - x)


def _check_direction(res, m, grid, lo, hi, olo, ohi, tb, inverse, site, dtype, fam=None):
    """grid: sorted 1-D tensor of inputs (in-box and, with tails, outside)."""
    N = grid.numel()
    call = m.inverse if inverse else m.forward
    with torch.no_grad():
        y, ld = call(grid.reshape(N, 1))
    y = y.reshape(N)
    ld = ld.reshape(N)
    d = "inverse" if inverse else "forward"
    dt = "f64" if dtype == torch.float64 else "f32"
    if not bool(torch.isfinite(y).all()) or not bool(torch.isfinite(ld).all()):
        i = int((~(torch.isfinite(y) & torch.isfinite(ld))).nonzero()[0])
        res.fail("nonfinite", site, "%s: non-finite at x=%r: y=%r ld=%r" % (d, float(grid[i]), float(y[i]), float(ld[i])), direction=d, dtype=dt, fam=fam)
        return None
    inside = (grid >= lo) & (grid <= hi)
    scale_out = max(abs(olo), abs(ohi), ohi - olo)
    u = _ulp(scale_out, dtype)
    # (e) tails: identity, zero log-det, bitwise
    if tb is not None:
        out = ~inside
        if bool(out.any()):
            if not torch.equal(y[out], grid[out]) or bool((ld[out] != 0).any()):
                i = int(((y != grid) | (ld != 0))[out].nonzero()[0])
                res.fail("tail_not_identity", site, "%s: outside the tail bound f(%r)=%r ld=%r" % (d, float(grid[out][i]), float(y[out][i]), float(ld[out][i])), direction=d, dtype=dt, fam=fam)
                return None
    yi, gi, li = y[inside], grid[inside], ld[inside]
    # (b) range
    if bool((yi < olo).any()) or bool((yi > ohi).any()):
        i = int(((yi < olo) | (yi > ohi)).nonzero()[0])
        res.fail("leaves_box", site, "%s: f(%r)=%r outside [%r, %r]" % (d, float(gi[i]), float(yi[i]), olo, ohi), direction=d, dtype=dt, fam=fam,
                 measured=max(olo - float(yi[i]), float(yi[i]) - ohi), tol=0.0)
        return None
    # (a) end-points
    for xe, ye, nm in ((lo, olo, "lower"), (hi, ohi, "upper")):
        sel = gi == xe
        if bool(sel.any()):
            err = float((yi[sel] - ye).abs().max())
            # 64 ulp of the output scale (1024 for the cubic, whose end value is a polynomial evaluation, not a pin) plus the
            # effect of the end-point itself being rounded to the working dtype
            tol_e = (4096 if fam == "cub" else 256) * u + 2 * float(torch.exp(li[sel]).max()) * _ulp(max(abs(lo), abs(hi)), dtype)
            if inverse:
                tol_e = (1e-6 if dtype == torch.float64 else 2e-3) * scale_out * max(1.0, float(torch.exp(li[sel]).max())) + (1e-3 * (ohi - olo) if fam == "cub" else 0.0)
            if inverse and err > tol_e:
                # a bin whose mass is below the resolution of the working dtype at that end (3.7e-7 of a box of height 0.01 at
                # -0.49 in float32) is flat as far as the forward map can tell: every point of it is a pre-image of the
                # end-point.  Accept a returned point whose forward image IS the end-point (to 256 ulp of the input scale).
                with torch.no_grad():
                    back = m.forward(yi[sel].reshape(-1, 1))[0].reshape(-1)
                if float((back - xe).abs().max()) <= 256 * _ulp(max(abs(lo), abs(hi)), dtype):
                    res.labels.append("endpoint_in_flat_bin")
                    err = 0.0
            res.see_ratio(err, tol_e)
            if err > tol_e:
                res.fail("endpoint", site, "%s: f(%s end %r)=%r, want %r" % (d, nm, xe, float(yi[sel][0]), ye), direction=d, dtype=dt, fam=fam, measured=err, tol=tol_e)
                return None
    # (c) monotone along the whole sorted grid (tails included)
    dy = y[1:] - y[:-1]
    dx = grid[1:] - grid[:-1]
    noise = 16 * u
    loose = (1e-6 if dtype == torch.float64 else 2e-3) * scale_out
    if inverse:
        # the inverse solves an equation (sqrt of a cancelling discriminant, cube roots): its accuracy is C02's/C19's
        # business; here only gross order violations count, scaled by the local slope of the inverse map
        sl = torch.exp(torch.maximum(ld[1:], ld[:-1]))
        noise = loose * torch.clamp(sl, min=1.0) + (1e-3 * (ohi - olo) if fam == "cub" else 0.0)
        if fam == "lin":
            # the piecewise-linear inverse is plain arithmetic (one subtraction, one division, one addition): rounding only
            noise = 256 * u * torch.clamp(sl, min=1.0)
    if bool((dy < -noise).any()):
        i = int((dy < -noise).nonzero()[0])
        res.fail("not_monotone", site, "%s: f(%r)=%r > f(%r)=%r" % (d, float(grid[i]), float(y[i]), float(grid[i + 1]), float(y[i + 1])),
                 direction=d, dtype=dt, fam=fam, measured=float(-dy[i]), tol=float(noise[i]) if torch.is_tensor(noise) else noise)
        return None
    slope = torch.exp(torch.minimum(ld[1:], ld[:-1]))
    ux = torch.tensor([_ulp(float(v), dtype) for v in grid[1:].abs().clamp_min(abs(hi - lo) * 1e-3).tolist()], dtype=dtype)
    # strictness is only decidable where the expected increase dominates the rounding of both the input (ux) and the output (u)
    must = (slope * dx > 1e3 * u) & (dx > 256 * ux) & (not inverse)
    if bool((dy[must] <= 0).any()):
        i = int(((dy <= 0) & must).nonzero()[0])
        res.fail("not_strictly_increasing", site, "%s: f(%r)=%r, f(%r)=%r although slope*gap=%.3g" % (
            d, float(grid[i]), float(y[i]), float(grid[i + 1]), float(y[i + 1]), float(slope[i] * dx[i])), direction=d, dtype=dt, fam=fam)
        return None
    # (d) continuity: adjacent grid points never jump by more than slope_max*gap + rounding
    smax = torch.exp(torch.maximum(ld[1:], ld[:-1]))
    allow = 4 * smax * (dx + 4 * ux) + 64 * u * (torch.clamp(smax, min=1.0) if inverse else 1.0) + ((1e-3 * (ohi - olo)) if (inverse and fam == "cub") else 0.0)
    close = dx <= 64 * torch.as_tensor(ux)   # only neighbours a few ulps apart probe continuity
    bad = close & (dy.abs() > allow) & (not inverse)     # (an inverse legitimately jumps across a bin that is flat to working precision)
    if bool(bad.any()):
        i = int(bad.nonzero()[0])
        res.fail("discontinuous", site, "%s: |f(%r)-f(%r)| = %.3g for points %.3g apart (slope<=%.3g)" % (
            d, float(grid[i + 1]), float(grid[i]), float(dy[i].abs()), float(dx[i]), float(smax[i])), direction=d, dtype=dt, fam=fam,
            measured=float(dy[i].abs()), tol=float(allow[i]))
        return None
    return y


def _layer_tails(case, res):
    fam, tb, F = case["fam"], case["tb"], 3
    shape = [F, 2, 2] if case["img"] and case["layer"] == "coupling" else [F]
    if case["layer"] == "coupling":
        spec = {"t": "c_" + fam, "mask": [1, 0, 1], "bins": case["bins"], "tails": "linear", "tb": tb, "hidden": 4, "blocks": 1, "act": "tanh",
                "uncond": bool(case["uncond"])}
    else:
        spec = {"t": "cdf_" + fam, "bins": case["bins"], "tails": "linear", "tb": tb}
    torch.manual_seed(case["seed"])
    b = zoo.build(spec, shape)
    if case["regime"] != "fresh":
        zoo.apply_regime(b.module, case["regime"], case["seed"])
    m = b.module.eval()
    site = type(m).__name__
    res.labels += ["layer:" + case["layer"], "fam:" + fam, "uncond:%s" % bool(case["uncond"]), "dtype:%s" % ("f64" if case["precise"] else "f32")]
    g = torch.Generator().manual_seed(case["seed"] + 1)
    n = 4
    mag = tb * (1.0 + torch.rand([n] + shape, generator=g) * 3.0 + 1e-3)           # strictly beyond the bound, up to 4 bounds away
    sign = (torch.rand([n] + shape, generator=g) < 0.5).to(mag.dtype) * 2 - 1
    X = mag * sign
    res.nontrivial = True
    for d, fn in (("forward", m.forward), ("inverse", m.inverse)):
        with torch.no_grad():
            Y, ld = fn(X)
        if not torch.equal(Y, X) or bool((ld != 0).any()):
            res.fail("tail_not_identity", site, "%s: inputs beyond the tail bound %g in every feature are not returned unchanged with zero "
                     "log-det (max |y-x| = %g, log-det %s)" % (d, tb, float((Y - X).abs().max()), ld.tolist()[:3]), direction=d,
                     dtype="f64" if case["precise"] else "f32", fam=fam)
            return res
    # and just inside: the layer must do something there (the bound is where it is said to be), unless parameters make it the identity
    return res


def run_case(case):
    precise = case["precise"]
    res = CaseResult()
    if case.get("layer"):
        with dtype_mode(precise):
            return _layer_tails(case, res)
    with dtype_mode(precise):
        dtype = torch.get_default_dtype()
        fam, K = case["fam"], case["bins"]
        tb, box = case.get("tb"), case.get("box")
        g = torch.random.get_rng_state()
        torch.manual_seed(case["seed"])
        m = zoo.FnSpline(fam, [1], K, box=box, tb=tb, extra=case.get("extra"))
        torch.random.set_rng_state(g)
        reg = case["regime"]
        if reg == "random":
            with torch.no_grad():
                gen = torch.Generator().manual_seed(case["seed"])
                for p in m.parameters():
                    p.copy_(torch.randn(p.shape, generator=gen, dtype=p.dtype) * case["sigma"])
        elif reg in ("nonuniform", "flatbin"):
            zoo.apply_regime(m, reg, case["seed"])
            with torch.no_grad():
                for p in m.parameters():
                    p.mul_(8.0 / 6.0)
        elif reg != "fresh":
            zoo.apply_regime(m, reg, case["seed"])
        site = "%s_spline%s" % ({"lin": "linear", "quad": "quadratic", "cub": "cubic", "rq": "rational_quadratic"}[fam], "(tails)" if tb is not None else "")
        res.labels += ["fam:" + fam, "bins:%d" % K, "dtype:%s" % ("f64" if precise else "f32"), "regime:" + reg,
                       "tails" if tb is not None else "box"]
        if tb is not None:
            lo, hi, olo, ohi = -tb, tb, -tb, tb
        else:
            lo, hi, olo, ohi = box
        minw = (case.get("extra") or {}).get("min_bin_width", 1e-3)
        minh = (case.get("extra") or {}).get("min_bin_height", 1e-3)
        if fam == "lin":
            minw = minh = 1.0 / K
        if (hi - lo) * minw < 256 * _ulp(max(abs(lo), abs(hi)), dtype) or (ohi - olo) * minh < 256 * _ulp(max(abs(olo), abs(ohi)), dtype):
            res.labels.append("box_below_dtype_resolution")   # bins narrower than the spacing of representable inputs
            return res
        with torch.no_grad():
            uw = zoo._uw_of(m).detach()[0]
            knots = zoo.input_knots(fam, uw, lo, hi, minw).reshape(-1).to(dtype)
        gen = torch.Generator().manual_seed(case["seed"] + 1)
        pts = [_neighbours(knots), torch.tensor([lo, hi], dtype=dtype), _neighbours(torch.tensor([lo, hi], dtype=dtype)),
               torch.linspace(lo, hi, 201, dtype=dtype), lo + (hi - lo) * torch.rand(60, generator=gen, dtype=dtype)]
        grid = torch.cat(pts)
        if tb is not None:
            far = torch.tensor([1.5, 2.0, 10.0, 1.0001], dtype=dtype) * tb
            grid = torch.cat([grid, far, -far])
        else:
            grid = grid[(grid >= lo) & (grid <= hi)]
        grid = torch.unique(grid)  # sorted
        y = _check_direction(res, m, grid, lo, hi, olo, ohi, tb, False, site, dtype, fam)
        res.nontrivial = K >= 2 or reg not in ("zero", "equal")
        if y is None or res.failures:
            return res
        # inverse direction on the image grid (+ its ulp neighbours, clipped to the output box when there are no tails)
        yin = y[(grid >= lo) & (grid <= hi)]
        g2 = torch.cat([_neighbours(yin[:: max(1, yin.numel() // 80)]), yin, torch.tensor([olo, ohi], dtype=dtype),
                        torch.linspace(olo, ohi, 101, dtype=dtype)])
        if tb is not None:
            g2 = torch.cat([g2, far, -far])
        else:
            g2 = g2[(g2 >= olo) & (g2 <= ohi)]
        g2 = torch.unique(g2)
        _check_direction(res, m, g2, olo, ohi, lo, hi, tb, True, site, dtype, fam)
    return res
