"""C19 - single precision agrees with double precision (scaled by the conditioning of the map) and stays finite."""
import copy

import numpy as np
import torch
from hypothesis import strategies as st

from vf import zoo
from vf.core import CaseResult, dtype_mode

PROPERTY = "C19"
USE_TARGET = False
RULE = ("A zoo transform (leaf, composite, Inverse/Multiscale wrappers, flat and image shapes, context) built in float32 with "
        "'moderate' magnitudes: |unnormalised parameter| <= 2 (regime 'bounded', also fresh/small), |input| <= 10, tail bounds "
        "<= 5, boxes of width >= 0.5 and |offset| <= 3; forward and inverse. Twin = copy.deepcopy(model).double(). Oracles: the "
        "float32 call does not raise, every result is finite and has the dtype of its inputs (float32 / float64 for the twin); "
        "|out32 - out64| <= 4096 * (kappa_hat + u32 * (1 + |out64|)) where kappa_hat is the largest change of the float64 "
        "result when inputs and parameters are perturbed by random relative 2^-23 (8 draws) - an empirical 'how far can "
        "rounding the data to float32 move the answer'. Non-trivial: the map is non-linear or has >= 2 features and "
        "kappa_hat < 1e-2. Single direct-parameter splines: K=128, also with one logit at +-6 / +-9 among O(0.5) ones (faint bins), and "
        "log-dets of C0-only maps are compared wherever the float64 log-det does not jump within 2^-20 of the inputs. One case in ten is a statistics/determinant case: BatchNorm training-mode steps and ActNorm data-dependent "
        "initialisation on batches with |mean|/std up to 950 (|x| <= 10), outputs, log-dets, running statistics and the following "
        "evaluation-mode forward/inverse against the float64 twin at K=16 (plus the inherent u*|x|/std of a single-precision batch mean); "
        "Naive/LU/QR/SVD linear layers with 16-200 features, with and without cache, at K=256. Distinct = distinct case JSON.")
ASSUMPTIONS = ["'moderate magnitude' is read as |parameter| <= 2 (direct-parameter splines also with one logit at +-6), |input| <= 10 (with +-2 the RQ discriminant never degenerates; see DESIGN 3/C19)",
               "K=4096 (128 for a single direct-parameter spline, measured <= 16): stable paths measured <= ~1300 with an 8-draw conditioning probe (which under-estimates the worst case), unstable root formulas >= 1e4"]
EXPLANATION = "generated"


def budget(tier):
    return {"examples": 9000 if tier == "quick" else 150000, "wall_s": 110 if tier == "quick" else 1500}


def _tame(spec):
    if isinstance(spec, dict):
        out = {k: _tame(v) for k, v in spec.items()}
        if "tb" in out and isinstance(out["tb"], (int, float)):
            out["tb"] = float(min(5.0, max(0.3, out["tb"])))
        if "box" in out and out["box"]:
            l, r, b, t = out["box"]
            w = min(max(r - l, 0.5), 10.0)
            h = min(max(t - b, 0.5), 10.0)
            l = max(-3.0, min(3.0, l))
            b = max(-3.0, min(3.0, b))
            out["box"] = [l, l + w, b, b + h]
        for k in ("min_bin_width", "min_bin_height", "min_derivative"):
            if k in out:
                out[k] = max(out[k], 1e-5 if k == "min_derivative" else 1e-3)
        if out.get("extra"):
            out["extra"] = {k: max(v, 1e-5 if k == "min_derivative" else 1e-3) for k, v in out["extra"].items()}
        return out
    if isinstance(spec, list):
        return [_tame(v) for v in spec]
    return spec


@st.composite
def _stat_case(draw):
    """data-dependent statistics and wide determinants: places where a float32 formula can cancel or under/overflow although every
    input and parameter is moderate"""
    kind = draw(st.sampled_from(["bn_train", "bn_train", "actnorm_init", "wide_linear", "flow_ctx"]))
    c = {"stat": kind, "seed": draw(st.integers(0, 10 ** 6))}
    if kind == "flow_ctx":
        c["F"] = draw(st.integers(2, 4))
        c["tr"] = draw(st.sampled_from(["maf", "coupling"]))
        c["embed"] = draw(st.booleans())
        c["base"] = draw(st.sampled_from(["standard", "conditional"]))
        c["n"] = draw(st.integers(1, 4))
        return c
    if kind == "wide_linear":
        c["D"] = draw(st.sampled_from([16, 48, 64, 96, 112, 128, 144, 200]))
        c["lin"] = draw(st.sampled_from(["naive", "naive", "lu", "qr", "svd"]))
        c["orth"] = draw(st.booleans())
        c["cache"] = draw(st.booleans())
        c["scale"] = draw(st.sampled_from([1.0, 1.0, 0.5, 2.0]))
        c["direction"] = draw(st.sampled_from(["forward", "inverse"]))
        c["warm"] = draw(st.booleans())
        c["n"] = draw(st.integers(1, 3))
    else:
        c["F"] = draw(st.integers(1, 4))
        c["img"] = draw(st.booleans()) if kind == "actnorm_init" else False
        c["n"] = draw(st.sampled_from([2, 3, 8, 32, 64, 256]))
        c["mean"] = draw(st.sampled_from([0.0, 1.0, -3.0, 8.0, 9.5, -9.5]))
        c["std"] = draw(st.sampled_from([0.01, 0.05, 0.3, 1.0]))
        c["affine"] = draw(st.booleans())
        c["eps"] = draw(st.sampled_from([1e-5, 1e-3]))
        c["steps"] = draw(st.integers(1, 3))
    return c


@st.composite
def _case(draw):
    if draw(st.integers(0, 9)) == 0:
        return draw(_stat_case())
    c = draw(zoo.transform_case({"regimes": ["bounded", "bounded", "fresh", "small"], "umnn": draw(st.integers(0, 15)) == 0}))
    if draw(st.integers(0, 7)) == 0:
        # saturating elementwise leaves on their own, fed up to |x| ~ 20: where naive formulas (log(sigmoid), log(1-tanh^2))
        # lose all single-precision accuracy while the float64 twin is still fine
        leaf = draw(st.sampled_from([{"t": "sigmoid", "temp": draw(st.sampled_from([1.0, 2.0, 0.5])), "learn": draw(st.booleans())},
                                     {"t": "tanh"}, {"t": "logtanh", "cut": draw(st.sampled_from([1.0, 3.0]))},
                                     {"t": "cauchycdf"}, {"t": "exp"}]))
        c["spec"], c["dom"], c["ctx"] = leaf, "R", None
        c["big_inputs"] = draw(st.sampled_from([8.0, 12.0, 20.0]))
    if c["spec"]["t"].startswith(("cdf_", "fn_")) and draw(st.integers(0, 2)) == 0:
        # direct-parameter splines also with one outstanding logit (+-6 among O(0.5) ones): bins of mass 1e-3..1e-4
        c["init"]["regime"] = "nonuniform"
        c["spread"] = draw(st.sampled_from([1.0, 1.5]))       # the outstanding logit at +-6 or +-9
    c["spec"] = _tame(c["spec"])
    if isinstance(c["dom"], list):
        c["dom"] = ["box", c["spec"]["box"][0], c["spec"]["box"][1]]
    c["direction"] = draw(st.sampled_from(["forward", "forward", "inverse"]))
    c["n"] = draw(st.integers(1, 3))
    c["seed"] = draw(st.integers(0, 10 ** 6))
    c["special"] = draw(st.sampled_from([0.0, 0.0, 0.3]))
    c["warm"] = draw(st.booleans())
    return c


def case_strategy(tier):
    return _case()


def _abs_scale(spec):
    """largest box coordinate any spline of the spec normalises against: (x - left) / (right - left) rounds absolutely at that scale,
    however small |x| itself is"""
    if isinstance(spec, dict):
        v = 0.0
        if spec.get("box"):
            v = max(abs(float(t)) for t in spec["box"])
        if isinstance(spec.get("tb"), (int, float)) and spec.get("tails", "linear"):
            v = max(v, abs(float(spec["tb"])))
        return max([v] + [_abs_scale(x) for x in spec.values() if isinstance(x, (dict, list))])
    if isinstance(spec, list):
        return max([0.0] + [_abs_scale(x) for x in spec])
    return 0.0


def _perturbed(twin, X, C, gen, inverse, abs_scale=0.0):
    t2 = copy.deepcopy(twin)
    rel = 2.0 ** -23
    with torch.no_grad():
        for p in t2.parameters():
            p.mul_(1 + rel * (torch.rand(p.shape, generator=gen, dtype=torch.float64) * 2 - 1))
        for n, b in t2.named_buffers():
            if b.dtype.is_floating_point and not n.endswith("_log_z"):
                b.mul_(1 + rel * (torch.rand(b.shape, generator=gen, dtype=torch.float64) * 2 - 1))
        Xp = X + rel * (X.abs() + abs_scale) * (torch.rand(X.shape, generator=gen, dtype=torch.float64) * 2 - 1)
        Cp = C * (1 + rel * (torch.rand(C.shape, generator=gen, dtype=torch.float64) * 2 - 1)) if C is not None else None
        return (t2.inverse(Xp, Cp) if inverse else t2(Xp, Cp))


def _cubic_inverse(spec, inv):
    """does the evaluation run a cubic spline in its inverse direction?"""
    t = spec["t"]
    if t in ("composite", "multiscale"):
        return any(_cubic_inverse(p, inv) for p in spec["parts"])
    if t == "inverse":
        return _cubic_inverse(spec["of"], not inv)
    if t == "compositecdf":
        return _cubic_inverse(spec["cdf"], inv)
    return inv and zoo.FAM_OF.get(t) == "cub"


def _has_cubic(spec):
    t = spec["t"]
    if t in ("composite", "multiscale"):
        return any(_has_cubic(p) for p in spec["parts"])
    if t == "inverse":
        return _has_cubic(spec["of"])
    if t == "compositecdf":
        return _has_cubic(spec["cdf"])
    return zoo.FAM_OF.get(t) == "cub"


K_STAT = 256.0


def _cmp(res, site, what, a32, a64, kappa, K=None, **sig):
    """|a32 - a64| <= K_STAT * (kappa + u32 * (1 + |a64|)); returns False after recording a failure"""
    if a32.dtype != torch.float32 or a64.dtype != torch.float64:
        res.fail("dtype_not_preserved", site, "%s: float32 model -> %s, float64 twin -> %s" % (what, a32.dtype, a64.dtype), what=what)
        return False
    if not bool(torch.isfinite(a64).all()):
        res.inconclusive += 1
        return False
    if not bool(torch.isfinite(a32).all()):
        res.fail("nonfinite_float32", site, "%s: float32 result is not finite while float64 is" % what, what=what, cubic_inverse=False, **sig)
        return False
    e = float((a32.double() - a64).abs().max())
    t = (K or K_STAT) * (kappa + 2.0 ** -24 * (1 + float(a64.abs().max())))
    res.see_ratio(e, t)
    if e > t:
        res.fail("f32_mismatch", site, "%s: float32 differs from float64 by %.3g (allowed %.3g, measured conditioning %.3g)" % (what, e, t, kappa),
                 measured=e / t, tol=1.0, what=what, scaled_err=e / t, cubic_inverse=False, has_cubic=False, **sig)
        return False
    return True


def _run_stat(case, res):
    from nflows import transforms as T
    kind = case["stat"]
    torch.manual_seed(case["seed"])
    g = torch.Generator().manual_seed(case["seed"] + 1)
    rel = 2.0 ** -23
    res.labels += ["stat:" + kind]
    if kind == "flow_ctx":
        # a conditional flow through its public entry points (log_prob, transform_to_noise) with a float64 context for the twin
        from nflows import distributions as dist
        from nflows.flows import Flow
        from nflows.nn import nets
        F, cw = case["F"], 2
        if case["tr"] == "maf":
            tr = T.MaskedAffineAutoregressiveTransform(F, 8, context_features=cw, num_blocks=1)
        else:
            tr = T.AffineCouplingTransform([i % 2 for i in range(F)], lambda i, o: nets.ResidualNet(i, o, hidden_features=8, context_features=cw, num_blocks=1))
        base = dist.ConditionalDiagonalNormal([F], context_encoder=torch.nn.Linear(cw, 2 * F)) if case["base"] == "conditional" else dist.StandardNormal([F])
        emb = torch.nn.Linear(3, cw) if case["embed"] else None
        flow = Flow(tr, base, embedding_net=emb)
        flow.eval()
        twin = copy.deepcopy(flow).double()
        X = torch.randn(case["n"], F, generator=g)
        C = torch.randn(case["n"], 3 if emb is not None else cw, generator=g)
        site = "Flow"
        res.nontrivial = True
        for nm in ("log_prob", "transform_to_noise"):
            with torch.no_grad():
                try:
                    r64 = getattr(twin, nm)(X.double(), C.double())
                except Exception as e:
                    from vf.core import nflows_site
                    res.fail("float64_twin_raises", nflows_site(e) or site, "%s on the .double() twin with float64 inputs and context: %s: %s" % (
                        nm, type(e).__name__, str(e)[:200]), exc=type(e).__name__)
                    return res
                r32 = getattr(flow, nm)(X, C)
                Xp = X.double() * (1 + rel * (torch.rand(X.shape, generator=g, dtype=torch.float64) * 2 - 1))
                Cp = C.double() * (1 + rel * (torch.rand(C.shape, generator=g, dtype=torch.float64) * 2 - 1))
                kap = float((getattr(twin, nm)(Xp, Cp) - r64).abs().max())
            if not _cmp(res, site, nm, r32, r64, kap * 8, direction="forward", fam="-"):
                return res
        return res
    if kind == "wide_linear":
        D = case["D"]
        cls = {"naive": T.NaiveLinear, "lu": T.LULinear, "qr": T.QRLinear, "svd": T.SVDLinear}[case["lin"]]
        kw = {"orthogonal_initialization": case["orth"]} if case["lin"] == "naive" else ({"num_householder": 4} if case["lin"] in ("qr", "svd") else {})
        m = cls(D, using_cache=case["cache"], **kw)
        with torch.no_grad():
            for p_ in m.parameters():
                p_.add_(torch.randn(p_.shape, generator=g) * 0.02).mul_(case["scale"] if p_.dim() == 2 or case["lin"] != "naive" else 1.0)
        m.eval()
        site = cls.__name__
        res.labels += ["lin:" + case["lin"], "D:%d" % D]
        if case.get("warm"):
            with torch.no_grad():
                m.inverse(torch.randn(2, D, generator=g))      # fills the (float32) cache through the inverse direction
        twin = copy.deepcopy(m).double()
        X = torch.randn(case["n"], D, generator=g) * 2
        inverse = case["direction"] == "inverse"
        Xd = X.double()
        with torch.no_grad():
            o64, l64 = twin.inverse(Xd) if inverse else twin(Xd)
            if not bool(torch.isfinite(l64).all()) or float(o64.abs().max()) > 1e6:
                res.inconclusive += 1
                return res
            ko = kl = 0.0
            for _ in range(4):
                t2 = copy.deepcopy(twin)
                for p_ in t2.parameters():
                    p_.mul_(1 + rel * (torch.rand(p_.shape, generator=g, dtype=torch.float64) * 2 - 1))
                Xp = Xd * (1 + rel * (torch.rand(Xd.shape, generator=g, dtype=torch.float64) * 2 - 1))
                po, pl = t2.inverse(Xp) if inverse else t2(Xp)
                ko, kl = max(ko, float((po - o64).abs().max())), max(kl, float((pl - l64).abs().max()))
            if max(ko, kl) > 2e-4:
                res.inconclusive += 1     # ill-conditioned draw (a 2^-23 perturbation already moves the result by > 2e-4: cond ~ 1e3 and more)
                return res
            outs = []
            for rep in range(2 if case["cache"] else 1):     # second call answers from the cache
                try:
                    outs.append(m.inverse(X) if inverse else m(X))
                except Exception as e:
                    from vf.core import nflows_site
                    res.fail("float32_raises", nflows_site(e) or site, "%s in float32 while the float64 twin returns: %s" % (type(e).__name__, str(e)[:200]),
                             exc=type(e).__name__, direction=case["direction"])
                    res.nontrivial = True
                    return res
        res.nontrivial = True
        for o32, l32 in outs:
            # (outputs of a 100-200-dimensional solve: the 4-draw probe sees less of the conditioning than for the scalar log-det)
            if not _cmp(res, site, "outputs (%s)" % case["direction"], o32, o64, ko * np.sqrt(D), K=1024.0, direction=case["direction"], fam="-"):
                return res
            if not _cmp(res, site, "logabsdet (%s)" % case["direction"], l32, l64, kl * np.sqrt(D), direction=case["direction"], fam="-"):
                return res
        return res
    # ---- batch statistics: BatchNorm in training mode / ActNorm's data-dependent initialisation
    F = case["F"]
    if kind == "bn_train":
        m = T.BatchNorm(F, eps=case["eps"], momentum=0.1, affine=case["affine"])
        site = "BatchNorm"
    else:
        m = T.ActNorm(F)
        site = "ActNorm"
    m.train()
    twin = copy.deepcopy(m).double()
    shape = [case["n"], F] + ([2, 2] if case.get("img") else [])
    res.labels += ["offcentre:%g" % (abs(case["mean"]) / case["std"])]
    res.nontrivial = True
    for step in range(case["steps"] if kind == "bn_train" else 1):
        X = (case["mean"] + case["std"] * torch.randn(shape, generator=g)).clamp(-10, 10)
        Xd = X.double()
        with torch.no_grad():
            o64, l64 = twin(Xd)
            ko = kl = 0.0
            stats0 = {k: v.clone() for k, v in twin.state_dict().items()}
            kstat = {k: 0.0 for k in stats0}
            for _ in range(4):
                t2 = copy.deepcopy(m).double() if step == 0 else None
                if t2 is None:
                    break
                t2.train()
                Xp = Xd * (1 + rel * (torch.rand(Xd.shape, generator=g, dtype=torch.float64) * 2 - 1))
                po, pl = t2(Xp)
                ko, kl = max(ko, float((po - o64).abs().max())), max(kl, float((pl - l64).abs().max()))
                for k, v in t2.state_dict().items():
                    if v.dtype.is_floating_point:
                        kstat[k] = max(kstat[k], float((v - stats0[k]).abs().max()))
            try:
                o32, l32 = m(X)
            except Exception as e:
                from vf.core import nflows_site
                res.fail("float32_raises", nflows_site(e) or site, "%s in float32 while the float64 twin returns: %s" % (type(e).__name__, str(e)[:200]),
                         exc=type(e).__name__, direction="forward")
                return res
        if step > 0:
            break      # later steps only advance the running statistics; compared below
        # inherent to storing/forming the batch mean in single precision: x - mean carries u*|x|, divided by the batch deviation
        red = [0] + list(range(2, Xd.dim()))
        dev = Xd.std(red) if Xd.numel() // F > 1 else torch.ones(F, dtype=torch.float64)
        ko = ko + rel * float(Xd.abs().max()) / max(float(dev.min()), case["eps"] ** 0.5 if kind == "bn_train" else 1e-12)
        if not _cmp(res, site, "training-mode outputs", o32, o64, ko, direction="forward", fam="-", K=16.0):
            return res
        if not _cmp(res, site, "training-mode logabsdet", l32, l64, kl, direction="forward", fam="-", K=16.0):
            return res
        sd32 = m.state_dict()
        for k, v in twin.state_dict().items():
            if v.dtype.is_floating_point and not _cmp(res, site, "state '%s' after a training-mode call" % k, sd32[k], v, kstat[k], direction="forward", fam="-", K=16.0):
                return res
    # evaluation mode with the statistics just gathered
    m.eval()
    twin.eval()
    with torch.no_grad():
        X = (case["mean"] + case["std"] * torch.randn(shape, generator=g)).clamp(-10, 10)
        # twin with the float32 model's own state: isolates the evaluation from the statistics compared above
        tw2 = copy.deepcopy(m).double()
        o64, l64 = tw2(X.double())
        Xp = X.double() * (1 + rel * (torch.rand(X.shape, generator=g, dtype=torch.float64) * 2 - 1))
        po, pl = tw2(Xp)
        ko, kl = float((po - o64).abs().max()), float((pl - l64).abs().max())
        o32, l32 = m(X)
        if not _cmp(res, site, "evaluation-mode outputs", o32, o64, ko, direction="forward", fam="-", K=16.0):
            return res
        if not _cmp(res, site, "evaluation-mode logabsdet", l32, l64, kl, direction="forward", fam="-", K=16.0):
            return res
        b32, bl32 = m.inverse(o32)
        b64, bl64 = tw2.inverse(o32.double())
        if not _cmp(res, site, "evaluation-mode inverse", b32, b64, ko, direction="inverse", fam="-", K=16.0):
            return res
    return res


class _Id:
    def __call__(self, z, c=None):
        return z, None


def _stage_near_kink(b, spec, twin, Xd, Cd):
    """forward direction: does any intermediate value (float64) lie within a few float32 ulps of a kink of the stage it enters?
    (tanh(9.5) = 1 - 1e-8 in double and exactly 1.0 = a knot of the following linear spline in single precision)"""
    try:
        parts = list(zip(b.parts, spec["parts"], twin._transforms)) if spec["t"] == "composite" else [(b, spec, twin)]
        z = Xd
        with torch.no_grad():
            for pb, ps, tm in parts:
                if not pb.smooth:
                    kinks = [float(v) for v in pb.specials]
                    if pb.knots is not None:
                        kinks += [float(v) for v in pb.knots().reshape(-1)]
                    if zoo.FAM_OF.get(ps["t"]) == "lin" and "box" not in ps:
                        # piecewise-linear layers (also coupling / autoregressive ones): equally spaced knots, whatever the parameters
                        lo_, hi_ = (-float(ps["tb"]), float(ps["tb"])) if ps.get("tails") or ps["t"].startswith("fn_") and ps.get("tb") else (0.0, 1.0)
                        K_ = int(ps.get("bins", 1))
                        kinks += [lo_ + (hi_ - lo_) * k / K_ for k in range(K_ + 1)]
                    if ps["t"] == "leakyrelu":
                        kinks.append(0.0)
                    if ps["t"] == "logtanh":
                        kinks += [float(ps.get("cut", 1.0)), -float(ps.get("cut", 1.0))]
                    zz = z.reshape(-1)
                    for kv in kinks:
                        if bool(((zz - kv).abs() <= 16 * 2.0 ** -23 * (1 + abs(kv))).any()):
                            return True
                z = tm(z, Cd)[0]
        return False
    except Exception:
        return True


def run_case(case):
    old = zoo.COMPOSITECDF_MARGIN[0]
    zoo.COMPOSITECDF_MARGIN[0] = 1e-2
    try:
        return _run_case(case)
    finally:
        zoo.COMPOSITECDF_MARGIN[0] = old


def _run_case(case):
    res = CaseResult()
    if case.get("stat"):
        with dtype_mode(False):
            return _run_stat(case, res)
    with dtype_mode(False):
        torch.manual_seed(case["seed"])
        b = zoo.instantiate(case)
        m = b.module
        if case.get("spread", 1.0) != 1.0:
            with torch.no_grad():
                for p_ in m.parameters():
                    p_.mul_(case["spread"])
            res.labels.append("spread:%g" % case["spread"])
        n, ctxk = case["n"], case.get("ctx")
        # special points only for maps that are C1 there: at a kink the float32 and float64 evaluations may legitimately sit on
        # different sides (their log-dets then differ by the jump of the derivative)
        # no special points: exactly at a knot / tail bound the float32 and the float64 evaluation legitimately take different
        # branches (0.3 as float32 is > 0.3 as double) and the derivative may jump there; C09/C17 probe those points in float32
        X, special = zoo.gen_inputs(b, n, case["seed"] + 1, 0.0, 1.0, dom=case["dom"])
        if case["spec"]["t"] == "logit" or (case["spec"]["t"] == "inverse" and case["spec"]["of"]["t"] == "sigmoid"):
            # an exact 0 (a black pixel): the boundary clamp is the same declared constant in both precisions
            X.reshape(-1)[0] = 0.0
            res.labels.append("logit_at_zero")
        if case["dom"] == "R":
            X = X * [1.0, 3.0, 8.0, 8.0][case["seed"] % 4]
        X = X.clamp(-10, 10)
        if case.get("big_inputs"):
            g0 = torch.Generator().manual_seed(case["seed"] + 3)
            X = (torch.rand(X.shape, generator=g0) * 2 - 1) * case["big_inputs"]
            if case["spec"]["t"] == "exp":
                X = X.clamp(-20, 20)
        if case["spec"]["t"].startswith(("cdf_", "fn_")) and b.knots is not None and b.smooth and case["seed"] % 2:
            # direct-parameter smooth splines: some inputs in the last few percent of a bin (never on a knot), where a steep knot
            # derivative meets a flat one
            try:
                with torch.no_grad():
                    kn = b.knots().double()                       # [*shape, K+1]
                    K_ = kn.shape[-1] - 1
                    g1 = torch.Generator().manual_seed(case["seed"] + 13)
                    k = torch.randint(1, K_ + 1, X.shape, generator=g1)
                    right = torch.gather(kn.expand(list(X.shape) + [K_ + 1]), -1, k[..., None])[..., 0]
                    left = torch.gather(kn.expand(list(X.shape) + [K_ + 1]), -1, (k - 1)[..., None])[..., 0]
                    frac = torch.tensor([0.01, 0.03, 0.08])[torch.randint(0, 3, X.shape, generator=g1)].double()
                    Xk = (right - frac * (right - left)).to(X.dtype)
                    sel = torch.rand(X.shape, generator=g1) < 0.5
                    X = torch.where(sel, Xk, X)
                res.labels.append("inputs_near_bin_ends")
            except Exception:
                pass
        C = zoo.gen_context(b, ctxk, n, case["seed"]) if ctxk is not None else None
        inverse = case["direction"] == "inverse" and b.invertible and not b.inv_via_forward
        site = type(m).__name__
        res.labels += ["dir:" + ("inverse" if inverse else "forward"), "top:" + case["spec"]["t"], "regime:" + case["init"]["regime"],
                       "dim:%dD" % (len(case["shape"]) + 1)] + ["tag:" + t for t in b.tags[:3]]
        if case.get("warm") and b.invertible and not b.inv_via_forward:
            # the float32 model has been used (inverse direction: caches of linear layers hold float32 matrices) before it is converted
            try:
                with torch.no_grad():
                    m.inverse(m(X, C)[0], C)
                res.labels.append("warm_before_double")
            except Exception:
                pass
        twin = copy.deepcopy(m).double()
        Xg = X
        if "logit_at_zero" in res.labels:
            Xg = torch.where(X == 0, torch.full_like(X, 0.5), X)      # the exact zero is decided by the declared clamp, not by conditioning
        if not zoo.chain_moderate(b, Xg, C, case["spec"], bound=25.0 if case.get("big_inputs") else 15.0):  # the float64 twin is accurate in saturation (softplus forms)
            res.inconclusive += 1
            return res
        with torch.no_grad():
            if inverse:
                try:
                    X = m(X, C)[0].detach()
                except Exception:
                    res.inconclusive += 1
                    return res
                if not bool(torch.isfinite(X).all()) or float(X.abs().max()) > 50 or not zoo.chain_moderate_inverse(b, X, C, case["spec"]):
                    res.inconclusive += 1
                    return res
            Xd, Cd = X.double(), (C.double() if C is not None else None)
            try:
                o64, l64 = (twin.inverse(Xd, Cd) if inverse else twin(Xd, Cd))
            except Exception as e:
                if type(e).__name__ == "InputOutsideDomain" and inverse:
                    res.inconclusive += 1   # float32 forward image is a hair outside the float64 twin's range
                    return res
                from vf.core import nflows_site
                res.fail("float64_twin_raises", nflows_site(e) or site, "%s on the .double() twin: %s" % (type(e).__name__, str(e)[:200]), exc=type(e).__name__)
                res.nontrivial = True
                return res
            try:
                o32, l32 = (m.inverse(X, C) if inverse else m(X, C))
            except Exception as e:
                from vf.core import nflows_site
                if type(e).__name__ == "InputOutsideDomain" and inverse:
                    res.inconclusive += 1
                    return res
                res.fail("float32_raises", nflows_site(e) or site, "%s in float32 while the float64 twin returns: %s" % (type(e).__name__, str(e)[:200]),
                         exc=type(e).__name__, direction=case["direction"])
                res.nontrivial = True
                return res
        if b.param_max[0] > 6.0:
            res.labels.append("conditioner_params_beyond_moderate")   # outside the property's 'moderate magnitude' premise
            res.inconclusive += 1
            return res
        # dtypes
        for nm, t32, t64 in (("outputs", o32, o64), ("logabsdet", l32, l64)):
            if t32.dtype != torch.float32 or t64.dtype != torch.float64:
                res.fail("dtype_not_preserved", site, "%s: float32 inputs -> %s, float64 inputs -> %s (%s direction)" % (nm, t32.dtype, t64.dtype, case["direction"]),
                         what=nm, direction="inverse" if inverse else "forward")
                res.nontrivial = True
                return res
        if not (bool(torch.isfinite(o64).all()) and bool(torch.isfinite(l64).all())) or float(o64.abs().max()) > 1e6:
            res.inconclusive += 1      # non-finite or astronomically large in float64 already: beyond 'moderate magnitude'
            return res
        if not (bool(torch.isfinite(o32).all()) and bool(torch.isfinite(l32).all())):
            res.fail("nonfinite_float32", site, "float32 result is not finite while float64 is (%s)" % case["direction"],
                     direction="inverse" if inverse else "forward", fam=b.family or "-", cubic_inverse=_cubic_inverse(case["spec"], inverse))
            res.nontrivial = True
            return res
        # conditioning probe
        gen = torch.Generator().manual_seed(case["seed"] + 5)
        ko, kl = 0.0, 0.0
        for _ in range(8):
            try:
                with torch.no_grad():
                    po, pl = _perturbed(twin, Xd, Cd, gen, inverse, _abs_scale(case["spec"]) if case["spec"]["t"].startswith(("fn_", "cdf_")) else 0.0)
            except Exception:
                res.inconclusive += 1
                return res
            if not (bool(torch.isfinite(po).all()) and bool(torch.isfinite(pl).all())):
                res.inconclusive += 1
                return res
            ko = max(ko, float((po - o64).abs().max()))
            kl = max(kl, float((pl - l64).abs().max()))
        u32 = 2.0 ** -24
        K = 4096.0
        if case["spec"]["t"].startswith(("cdf_", "fn_")):
            K = 256.0      # a single spline with its own parameters: the 8-draw probe sees the whole conditioning (measured <= 0.004 * 4096; 135 once in 1.4e5 thorough cases)
        eo = float((o32.double() - o64).abs().max())
        el = float((l32.double() - l64).abs().max())
        to = K * (ko + u32 * (1 + float(o64.abs().max())))
        tl = K * (kl + u32 * (1 + float(l64.abs().max())) * max(1, int(np.prod(case["shape"]))))
        if not b.smooth:
            # C0-only maps (linear spline, LeakyReLU, LogTanh): a float32 value can sit on the other side of a kink than its
            # float64 counterpart (e.g. tanh saturating to exactly 1.0 = a knot), which moves the log-det by the derivative jump:
            # compare log-dets only where the float64 log-det does not jump within a few float32 ulps of the inputs
            if not inverse:
                near_kink = _stage_near_kink(b, case["spec"], twin, Xd, Cd)
            elif case["spec"]["t"] in ("composite", "multiscale", "inverse"):
                near_kink = True          # inverse direction of a chain: not followed stage by stage
            else:
                near_kink = _stage_near_kink(b, case["spec"], _Id(), o64, Cd)     # a single C0 leaf: its inverse lands next to a knot?
            try:
                with torch.no_grad():
                    for sgn in (-1.0, 1.0):
                        Xs = Xd + sgn * 2.0 ** -20 * (1 + Xd.abs())
                        ls_ = (twin.inverse(Xs, Cd) if inverse else twin(Xs, Cd))[1]
                        if not bool(torch.isfinite(ls_).all()) or float((ls_ - l64).abs().max()) > 0.25 * tl:
                            near_kink = True
            except Exception:
                near_kink = True
            if near_kink:
                el = 0.0
                res.labels.append("logdet_skipped_near_kink")
        r = max(res.see_ratio(eo, to), res.see_ratio(el, tl))
        if eo > to or el > tl:
            res.fail("f32_mismatch", site, "%s: float32 differs from float64 by %.3g (outputs, allowed %.3g) / %.3g (log-det, allowed %.3g); "
                     "measured conditioning %.3g / %.3g" % (case["direction"], eo, to, el, tl, ko, kl), measured=max(eo / to, el / tl), tol=1.0,
                     direction="inverse" if inverse else "forward", fam=b.family or "-", scaled_err=max(eo / to, el / tl),
                     cubic_inverse=_cubic_inverse(case["spec"], inverse), has_cubic=_has_cubic(case["spec"]))
        res.nontrivial = (not b.affine or int(np.prod(case["shape"])) >= 2) and max(ko, kl) < 1e-2
    return res
