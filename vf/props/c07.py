"""C07 - coupling layers leave identity features untouched and condition only on them."""
import itertools

import numpy as np
import torch
from hypothesis import strategies as st

from vf import zoo
from vf.core import CaseResult, dtype_mode

PROPERTY = "C07"
CLASSES = ["c_affine", "c_additive", "c_lin", "c_quad", "c_cub", "c_rq", "c_umnn"]
RULE = ("Exhaustive: every mask over 2-4 features with entries from {-1, 0, 0.3, 1} having both sides non-empty (7 coupling "
        "classes; UMNN on a sub-grid) x {2-D, 4-D image} x both directions x tails none/linear, mask given as list / tuple / "
        "float, int, bool, uint8 tensor; Hypothesis adds masks over up to 8 features with values {-2.5,-1,0,0.3,1,7}, "
        "context, unconditional transforms, parameter regimes, conditioners with dropout 0.3/0.5 and batch norm (evaluation mode). Oracles: identity features bit-for-bit unchanged (no "
        "unconditional transform); moving one transformed input leaves every other output bit-identical and moves its own "
        "output monotonically; Jacobian rows of identity outputs are unit vectors and the transformed block is diagonal with "
        "positive diagonal (exact zeros elsewhere, across channels and pixels); identity_features/transform_features partition "
        "the features consistently with mask > 0. Identity features of box-restricted couplings are also drawn outside [0,1] (only transformed "
        "features are restricted); the UMNN inverse also sees one far-out value (5000). Non-trivial: mask is not the mid-split, or inverse, or 4-D, or context.")
ASSUMPTIONS = ["bitwise comparison via torch.equal on the same dtype", "masks with an empty side are not generated "
               "(the conditioner would have zero inputs or outputs)"]
EXHAUSTIVE = {"quick": True, "thorough": True}
EXPLANATION = "exhaustive over masks with <= 4 features and the named value set; the rest generated"


def budget(tier):
    return {"examples": 2500 if tier == "quick" else 60000, "wall_s": 100 if tier == "quick" else 1500}


def _masks(n, vals):
    for m in itertools.product(vals, repeat=n):
        if any(v > 0 for v in m) and any(v <= 0 for v in m):
            yield list(m)


def enumerate_cases(tier):
    cases = []
    vals = (-1, 0, 0.3, 1)
    mk = ["list", "tuple", "float", "int", "bool", "uint8"]
    k = 0
    for n in (2, 3, 4):
        for mask in _masks(n, vals):
            for cls in CLASSES:
                if cls == "c_umnn" and (n > 3 or k % 5):
                    k += 1
                    continue
                k += 1
                for img in (False, True):
                    if tier == "quick" and n == 4 and (k + int(img)) % 3:
                        continue
                    for inverse in (False, True):
                        tails = (k % 2 == 0)
                        kind = mk[k % len(mk)]
                        mm = mask
                        if kind in ("int", "bool", "uint8"):
                            mm = [1 if v > 0 else 0 for v in mask]  # containers that cannot hold -1 / 0.3
                        cases.append({"cls": cls, "mask": mm, "mask_kind": kind, "img": img, "inverse": inverse, "tails": tails,
                                      "ctx": None, "uncond": False, "seed": k, "regime": "small", "bins": 3, "act": "relu"})
    return cases


@st.composite
def _case(draw):
    n = draw(st.integers(2, 8))
    mask = draw(zoo.mask_for(n))
    cls = draw(st.sampled_from(CLASSES[:-1] * 3 + ["c_umnn"]))
    if cls == "c_umnn":
        n = min(n, 3)
        mask = mask[:n]
        if not (any(v > 0 for v in mask) and any(v <= 0 for v in mask)):
            mask = [1, 0][:n] + [1] * (n - 2)
    return {"cls": cls, "mask": mask, "mask_kind": draw(st.sampled_from(["list", "tuple", "float"])), "img": draw(st.booleans()),
            "inverse": draw(st.booleans()), "tails": draw(st.booleans()), "ctx": draw(st.sampled_from([None, None, 2])),
            "uncond": draw(st.booleans()), "seed": draw(st.integers(0, 10 ** 6)),
            "regime": draw(st.sampled_from(["fresh", "zero", "small", "moderate", "nonuniform"])), "bins": draw(st.integers(1, 5)),
            "act": draw(st.sampled_from(["relu", "tanh", "elu"])), "hw": draw(st.sampled_from([[2, 2], [1, 3], [2, 1]])),
            "dropout": draw(st.sampled_from([0.0, 0.0, 0.3, 0.5])), "bn": draw(st.booleans())}


def case_strategy(tier):
    return _case()


def _mask_obj(mask, kind):
    if kind == "list":
        return list(mask)
    if kind == "tuple":
        return tuple(mask)
    if kind == "float":
        return torch.tensor(mask, dtype=torch.float32)
    if kind == "int":
        return torch.tensor(mask, dtype=torch.int64)
    if kind == "bool":
        return torch.tensor([bool(v) for v in mask])
    if kind == "uint8":
        return torch.tensor(mask, dtype=torch.uint8)
    raise ValueError(kind)


def run_case(case):
    res = CaseResult()
    mask = case["mask"]
    n = len(mask)
    T_idx = [i for i, v in enumerate(mask) if v > 0]
    I_idx = [i for i, v in enumerate(mask) if v <= 0]
    shape = [n] + (case.get("hw", [2, 2]) if case["img"] else [])
    cls = case["cls"]
    with dtype_mode(True):
        spec = {"t": cls, "mask": _mask_obj(mask, case["mask_kind"]), "hidden": 4, "blocks": 1, "act": case.get("act", "relu"),
                "bins": case.get("bins", 3), "tails": "linear" if case["tails"] else None, "tb": 2.0, "use_ctx": True,
                # conditioner options that must be inert in evaluation mode (dropout off, batch norm on its running statistics)
                "dropout": case.get("dropout", 0.0), "bn": bool(case.get("bn", False))}
        if cls in ("c_affine",) and case["uncond"] and not case["img"]:
            spec["uncond"] = "lu"
        elif cls.startswith(("c_lin", "c_quad", "c_cub", "c_rq")) and case["uncond"]:
            spec["uncond"] = True
        uncond = bool(spec.get("uncond"))
        torch.manual_seed(case["seed"])
        b = zoo.build(spec, shape, case["ctx"])
        zoo.apply_regime(b.module, "small" if (cls == "c_umnn" and case["regime"] not in ("fresh", "zero")) else case["regime"], case["seed"])
        m = b.module
        m.eval()
        site = type(m).__name__
        res.labels += ["cls:" + cls, "dim:%s" % ("4D" if case["img"] else "2D"), "dir:" + ("inverse" if case["inverse"] else "forward"),
                       "mask_kind:" + case["mask_kind"], "uncond:%s" % uncond, "ctx:%s" % (case["ctx"] is not None)]
        # (d) bookkeeping
        if sorted(m.identity_features.tolist()) != I_idx or sorted(m.transform_features.tolist()) != T_idx:
            res.fail("partition", site, "mask %s -> identity %s transform %s (want %s / %s)" % (
                mask, m.identity_features.tolist(), m.transform_features.tolist(), I_idx, T_idx), mask=mask)
            return res
        unit = cls in ("c_lin", "c_quad", "c_cub", "c_rq") and not case["tails"]
        g = torch.Generator().manual_seed(case["seed"] + 5)
        rows = 2
        X = torch.rand([rows] + shape, generator=g) if unit else torch.randn([rows] + shape, generator=g) * 1.2
        if unit and not uncond and case["seed"] % 3 == 0:
            # only the TRANSFORMED features are restricted to the unit box; identity features may be any real numbers
            wide = torch.randn([rows] + shape, generator=g) * 3.0
            for i_ in I_idx:
                X[:, i_] = wide[:, i_]
            res.labels.append("identity_features_outside_unit_box")
        ctx = zoo.gen_context(b, case["ctx"], rows, case["seed"])
        call = (lambda Z: m.inverse(Z, ctx)) if case["inverse"] else (lambda Z: m(Z, ctx))
        if cls == "c_umnn" and case["inverse"]:
            with torch.no_grad():
                X = m(X, ctx)[0]  # the bisection inverse only searches pre-images in [-20, 20]
        with torch.no_grad():
            Y, ld = call(X)
        if not (bool(torch.isfinite(Y).all()) and bool(torch.isfinite(ld).all())):
            res.inconclusive += 1
            return res
        # (a) identity features bit-for-bit
        if not uncond:
            if not torch.equal(Y[:, I_idx], X[:, I_idx]) or bool((torch.signbit(Y[:, I_idx]) != torch.signbit(X[:, I_idx])).any()):
                res.fail("identity_features_changed", site, "identity features %s not returned bit-for-bit (max diff %g)" % (
                    I_idx, float((Y[:, I_idx] - X[:, I_idx]).abs().max())), mask=mask, direction="inverse" if case["inverse"] else "forward")
                return res
        # (b)+(c) move ONE transformed input element: nothing else may move (bitwise); its own output moves monotonically
        D = int(np.prod(shape))
        flatT = [i for i in range(D) if (i // (D // n)) in T_idx]
        pick = [flatT[int(torch.randint(0, len(flatT), (1,), generator=g))] for _ in range(2)]
        for j in pick:
            outs = []
            deltas = [-0.31, -0.07, 0.0, 0.11, 0.29] if not unit else None
            base_v = float(X.reshape(rows, -1)[0, j])
            vals = [base_v + d for d in deltas] if not unit else sorted({0.0, 0.13, min(1.0, max(0.0, base_v)), 0.58, 1.0})
            if cls == "c_umnn" and case["inverse"]:
                vals = [base_v + d for d in (-0.05, 0.0, 0.05)] + ([5000.0] if case["seed"] % 2 else [])     # and one far-out value
            for v in vals:
                X2 = X.clone()
                X2.reshape(rows, -1)[0, j] = v
                with torch.no_grad():
                    Y2, _ = call(X2)
                others = torch.ones(rows, D, dtype=torch.bool)
                others[0, j] = False
                ya, yb = Y2.reshape(rows, -1)[others], Y.reshape(rows, -1)[others]
                # not bitwise: the tail scatter evaluates the spline on the sub-batch of in-box elements, whose size (and
                # hence the vector/scalar code path of exp/softmax) changes when one element crosses the tail bound
                if bool(((ya - yb).abs() > 1e-12 * (1 + yb.abs())).any()):
                    k = 0
                    res.fail("transformed_input_leaks", site, "moving transformed input element %d changed another output (mask %s, %s)" % (
                        j, mask, "4D" if case["img"] else "2D"), mask=mask, direction="inverse" if case["inverse"] else "forward")
                    return res
                outs.append(float(Y2.reshape(rows, -1)[0, j]))
            if any(b2 < a2 - 1e-12 * (1 + abs(a2)) for a2, b2 in zip(outs, outs[1:])):
                res.fail("not_monotone", site, "output %d not monotone in its own input: %s -> %s" % (j, vals, outs), mask=mask)
                return res
        # the parameters applied to one row depend on ITS identity features (and context) only: another row's identity features
        # must not matter (a conditioner that normalises with statistics of the current batch would make them matter)
        if rows >= 2 and I_idx:
            X3 = X.clone()
            X3[1:, I_idx[0]] = X[1:, I_idx[0]] * 0.5 + (0.2 if unit else 0.31)       # (values in [0, 1] stay in [0.2, 0.7])
            with torch.no_grad():
                try:
                    Y3, _ = call(X3)
                except Exception as e:
                    if type(e).__name__ != "InputOutsideDomain":
                        raise
                    Y3 = None
            if Y3 is not None and bool(((Y3[0] - Y[0]).abs() > 1e-12 * (1 + Y[0].abs())).any()):
                res.fail("other_rows_matter", site, "changing identity features of the OTHER rows changed the outputs of row 0 (max %g; mask %s, %s)" % (
                    float((Y3[0] - Y[0]).abs().max()), mask, "4D" if case["img"] else "2D"), mask=mask, direction="inverse" if case["inverse"] else "forward")
                return res
        # Jacobian structure (row 0)
        J = torch.autograd.functional.jacobian(lambda v: call(torch.cat([v[None], X[1:]], 0))[0][0].reshape(-1), X[0].clone()).reshape(D, D)
        if not bool(torch.isfinite(J).all()):
            res.labels.append("nonfinite_jacobian")  # gradient finiteness is C16's property
            res.inconclusive += 1
            res.nontrivial = True
            return res
        isT = torch.tensor([(i // (D // n)) in T_idx for i in range(D)])
        eye = torch.eye(D, dtype=J.dtype)
        if not uncond and not torch.equal(J[~isT], eye[~isT]):
            res.fail("identity_rows_not_unit", site, "Jacobian rows of identity outputs are not unit vectors", mask=mask)
        off = J[isT][:, isT] - torch.diag(torch.diagonal(J)[isT])
        if bool((off != 0).any()):
            res.fail("transformed_block_not_diagonal", site, "d out_T / d in_T has off-diagonal entries (max %g)" % float(off.abs().max()), mask=mask)
        dg = torch.diagonal(J)[isT]
        if bool((dg < 0).any()):
            res.fail("negative_slope", site, "transformed feature has negative derivative %g" % float(dg.min()), mask=mask)
        mid = [1] * ((n + 1) // 2) + [0] * (n - (n + 1) // 2)
        res.nontrivial = [1 if v > 0 else 0 for v in mask] != mid or case["inverse"] or case["img"] or case["ctx"] is not None
    return res
