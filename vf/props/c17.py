"""C17 - out-of-domain inputs are rejected with InputOutsideDomain, in-domain inputs never fail and give finite results."""
import numpy as np
import torch
from hypothesis import strategies as st

from vf import zoo
from vf.core import CaseResult, dtype_mode

PROPERTY = "C17"
RULE = ("A domain-restricted transform (Exp/Tanh/Sigmoid inverses, Logit, CauchyCDF inverse, the four spline families through "
        "the function API with generated boxes, the unconstrained_* forms and CDF classes with tail bounds 1e-3..1e4, piecewise "
        "coupling / autoregressive wrappers) in one direction, in training or evaluation mode, bare or as the only part of a composite, float32 or float64, on a batch (1-5 rows x 1-3 features) of valid "
        "elements in which ONE element (any position) is placed exactly on a boundary, 1/2/8 ulp inside, 1/2/8 ulp outside or "
        "far outside. Oracle: outside (by the transform's own domain for that direction, open/closed as documented) => "
        "raises InputOutsideDomain (exact type); otherwise no exception and all outputs finite. Non-trivial: the probe is "
        "within 8 ulp of a boundary. Bounded single-precision splines are also handed double-precision inputs 1/2/8 double-precision steps "
        "outside the box: InputOutsideDomain. Distinct = distinct case JSON.")
ASSUMPTIONS = ["domains: Exp.inverse (0,inf); Tanh.inverse (-1,1); Sigmoid.inverse/Logit/CauchyCDF.inverse [0,1]; splines: closed "
               "[left,right] forward, closed [bottom,top] inverse; with linear tails every finite real",
               "wrappers whose conditioner shifts nothing: the box of transformed features is parameter-independent"]
EXPLANATION = "generated search"


def budget(tier):
    return {"examples": 30000 if tier == "quick" else 600000, "wall_s": 100 if tier == "quick" else 1200}


PLACEMENTS = ["on", "in1", "in2", "in8", "out1", "out2", "out8", "far", "interior"]


@st.composite
def _case(draw):
    kind = draw(st.sampled_from(["exp_inv", "tanh_inv", "sigmoid_inv", "logit", "cauchy_inv", "fn", "fn", "fn", "fn_tails", "fn_tails",
                                 "cdf", "cdf_tails", "coupling", "ar"]))
    c = {"kind": kind, "precise": draw(st.booleans()), "rows": draw(st.integers(1, 5)), "feats": draw(st.integers(1, 3)),
         "place": draw(st.sampled_from(PLACEMENTS)), "side": draw(st.sampled_from(["lo", "hi"])),
         "pos": draw(st.integers(0, 14)), "seed": draw(st.integers(0, 10 ** 6)),
         "regime": draw(st.sampled_from(["fresh", "zero", "small", "moderate", "nonuniform", "flatbin"])),
         "eval": draw(st.booleans()), "nested": draw(st.booleans()), "mixed": draw(st.booleans())}
    if kind in ("fn", "fn_tails", "cdf", "cdf_tails", "coupling", "ar"):
        c["fam"] = draw(st.sampled_from(["lin", "quad", "cub", "rq"]))
        c["bins"] = draw(st.integers(1, 6))
        c["inverse"] = draw(st.booleans())
    if kind == "fn":
        c["box"] = draw(zoo.boxes())
    if kind in ("fn_tails", "cdf_tails"):
        c["tb"] = draw(st.sampled_from([1.0, 1e-3, 0.1, 0.3, 0.6, 1.1, 3.0, 5.0, 32.0, 40.0, 100.0, 1e3, 1e4, 3.3]))
    if kind in ("coupling", "ar"):
        c["tails"] = draw(st.booleans())
        if c["tails"]:
            c["tb"] = draw(st.sampled_from([1.0, 0.1, 0.3, 3.0, 40.0, 1e3]))
        c["feats"] = max(2, c["feats"])
        c["uncond"] = draw(st.booleans()) if kind == "coupling" else False
        if kind == "ar" and c["fam"] in ("lin", "cub"):
            c["tails"] = False
            c.pop("tb", None)
    if kind == "sigmoid_inv" or kind == "logit":
        c["temp"] = draw(st.sampled_from([1.0, 0.5, 2.0]))
    return c


def case_strategy(tier):
    return _case()


def _step(v, k, dtype, up):
    t = torch.tensor(v, dtype=dtype)
    tgt = torch.tensor(float("inf") if up else float("-inf"), dtype=dtype)
    for _ in range(k):
        t = torch.nextafter(t, tgt)
    return float(t)


def run_case(case):
    from nflows import transforms as T
    from nflows.transforms.base import InputOutsideDomain
    from nflows.transforms import nonlinearities as NL

    res = CaseResult()
    kind = case["kind"]
    with dtype_mode(case["precise"]):
        dtype = torch.get_default_dtype()
        rows, feats = case["rows"], case["feats"]
        g = torch.Generator().manual_seed(case["seed"])
        inverse = bool(case.get("inverse", False))
        # ---- build the callable, its domain [lo, hi] with open/closed flags, and a generator of valid elements
        lo = hi = None
        bw = None
        lo_open = hi_open = False
        unbounded = False
        probe_feats = list(range(feats))
        def moded(mod, use_inverse):
            # the domain does not depend on training / evaluation mode, nor on being a part of a composite
            top = T.CompositeTransform([mod]) if case.get("nested") else mod
            top.train(not case.get("eval", False))
            return top.inverse if use_inverse else top.forward

        if kind == "exp_inv":
            call = moded(T.Exp(), True)
            lo, hi, lo_open = 0.0, float("inf"), True
        elif kind == "tanh_inv":
            call = moded(T.Tanh(), True)
            lo, hi, lo_open, hi_open = -1.0, 1.0, True, True
        elif kind == "sigmoid_inv":
            call = moded(T.Sigmoid(temperature=case.get("temp", 1.0)), True)
            lo, hi = 0.0, 1.0
        elif kind == "logit":
            call = moded(T.Logit(temperature=case.get("temp", 1.0)), False)
            lo, hi = 0.0, 1.0
        elif kind == "cauchy_inv":
            call = moded(NL.CauchyCDF(), True)
            lo, hi = 0.0, 1.0
        else:
            fam, K = case["fam"], case["bins"]
            torch.manual_seed(case["seed"])
            if kind in ("fn", "fn_tails"):
                m = zoo.FnSpline(fam, [feats], K, box=case.get("box"), tb=case.get("tb"))
            elif kind in ("cdf", "cdf_tails"):
                spec = {"t": "cdf_" + fam, "bins": K, "tails": "linear" if kind == "cdf_tails" else None, "tb": case.get("tb", 1.0)}
                m = zoo.build(spec, [feats]).module
            elif kind == "coupling":
                mask = [1 if i % 2 == 0 else 0 for i in range(feats)]
                spec = {"t": "c_" + fam, "mask": mask, "bins": K, "tails": "linear" if case["tails"] else None, "tb": case.get("tb", 1.0),
                        "hidden": 4, "blocks": 1, "act": "relu", "uncond": bool(case.get("uncond"))}
                bw = zoo.watch_conditioners(zoo.build(spec, [feats]))
                m = bw.module
                # with an unconditional transform the identity features pass through a spline of the same box / tails too
                probe_feats = list(range(feats)) if case.get("uncond") else [i for i in range(feats) if mask[i] > 0]
            else:
                spec = {"t": "ar_" + fam, "bins": K, "tails": "linear" if case.get("tails") else None, "tb": case.get("tb", 1.0),
                        "hidden": max(4, feats), "blocks": 1, "act": "relu", "seed": case["seed"]}
                bw = zoo.watch_conditioners(zoo.build(spec, [feats]))
                m = bw.module
            if case["regime"] != "fresh":
                zoo.apply_regime(m, case["regime"], case["seed"])
            m.eval()     # (conditioner networks stay in evaluation mode: no batch statistics; the transform's own mode is drawn)
            if kind in ("fn", "fn_tails", "cdf", "cdf_tails"):
                m.train(not case.get("eval", True))
            call = m.inverse if inverse else m.forward
            if case.get("tb") is not None and kind != "fn" and (kind in ("fn_tails", "cdf_tails") or case.get("tails")):
                unbounded = True
                lo, hi = -case["tb"], case["tb"]   # junction: both sides are in-domain
            elif kind == "fn":
                l, r, b, t = case["box"]
                lo, hi = (b, t) if inverse else (l, r)
            else:
                lo, hi = 0.0, 1.0
        res.labels += ["kind:" + kind, "place:" + case["place"], "dtype:%s" % ("f64" if case["precise"] else "f32"),
                       "dir:" + ("inverse" if inverse else "forward")] + (["fam:" + case["fam"]] if "fam" in case else [])
        # ---- valid filler elements
        if unbounded:
            X = torch.randn(rows, feats, generator=g, dtype=dtype) * case["tb"] * 0.6
        elif kind == "exp_inv":
            X = torch.exp(torch.randn(rows, feats, generator=g, dtype=dtype))
        elif kind == "tanh_inv":
            X = torch.tanh(torch.randn(rows, feats, generator=g, dtype=dtype))
        else:
            X = lo + (hi - lo) * (0.05 + 0.9 * torch.rand(rows, feats, generator=g, dtype=dtype))
            if kind == "coupling":
                X = X  # identity features also inside the box (valid for both tails and no tails)
        # ---- the probe
        side_hi = case["side"] == "hi"
        if kind == "exp_inv":
            side_hi = False
        edge = float(torch.tensor(hi if side_hi else lo, dtype=dtype)) if not unbounded else (hi if side_hi else lo)
        # the domain is understood in the working dtype: the edge is the bound rounded to that dtype (a float32 caller cannot
        # represent 0.1 or -99.99 any better), so 'on' is always exactly on the edge as the library sees it
        edge_exact = float(torch.tensor(hi if side_hi else lo, dtype=dtype))
        place = case["place"]
        outward_up = side_hi
        if place == "on":
            v = edge
        elif place in ("in1", "in2", "in8"):
            v = _step(edge, int(place[2:]), dtype, not outward_up)
        elif place.startswith("out"):
            v = _step(edge, int(place[3:]), dtype, outward_up)
        elif place == "far":
            span = (abs(hi - lo) if np.isfinite(hi) else 1.0) or 1.0
            v = edge + (1 if outward_up else -1) * (0.37 * span + 0.5)
        else:
            v = float(X[0, 0])
        r, f = divmod(case["pos"], max(1, len(probe_feats)))
        r = r % rows
        f = probe_feats[f % len(probe_feats)]
        X[r, f] = v
        vv = float(X[r, f])
        # ---- expected verdict, from the documented domain and the value actually stored in the tensor
        if unbounded or place == "interior":
            outside = False
        else:
            below = vv < edge_exact if not side_hi else False
            above = vv > edge_exact if side_hi else False
            on = vv == edge_exact
            outside = below or above or (on and (hi_open if side_hi else lo_open))
        res.nontrivial = place != "interior" and place != "far"
        if case.get("mixed") and not case["precise"] and kind in ("fn", "cdf") and not unbounded and place.startswith("out") \
                and lo is not None and np.isfinite(lo) and np.isfinite(hi) and not (lo_open or hi_open):
            # double-precision inputs handed to the single-precision transform: the bounds are decided on the caller's numbers, a
            # value 1-8 double-precision steps outside the box is outside (it must not be rounded into the box first)
            X64 = X.double()
            X64[r, f] = _step(float(hi if side_hi else lo), int(place[3:]), torch.float64, outward_up)
            res.labels.append("mixed_precision_outside")
            try:
                with torch.no_grad():
                    o64 = call(X64)[0]
                res.fail("out_of_domain_accepted", kind, "double-precision value %r (%s, %s side of [%r, %r]) lies outside the domain but the single-precision "
                         "transform returned %r" % (float(X64[r, f]), place, case["side"], lo, hi, float(o64.reshape(rows, -1)[r, f])), place=place,
                         fam=case.get("fam"), mixed=True)
                return res
            except InputOutsideDomain:
                pass
            except Exception:
                res.labels.append("mixed_precision_other_error")     # (refused, though not with the documented exception: not judged here)
        try:
            with torch.no_grad():
                out, ld = call(X)
        except InputOutsideDomain:
            if not outside:
                res.fail("in_domain_rejected", kind, "value %r (%s, %s side of [%r, %r]) is in the domain but InputOutsideDomain was raised" % (
                    vv, place, case["side"], lo, hi), place=place, fam=case.get("fam"), dtype="f64" if case["precise"] else "f32")
            return res
        except Exception as e:
            from vf.core import nflows_site
            res.fail("wrong_exception", kind, "%s raised %s: %s (value %r, %s)" % (nflows_site(e), type(e).__name__, e, vv, place),
                     place=place, fam=case.get("fam"), exc=type(e).__name__)
            return res
        if outside:
            res.fail("out_of_domain_accepted", kind, "value %r (%s, %s side of [%r, %r]) lies outside the domain but the call returned %r" % (
                vv, place, case["side"], lo, hi, float(out.reshape(rows, -1)[r, f])), place=place, fam=case.get("fam"))
            return res
        if not (bool(torch.isfinite(out).all()) and bool(torch.isfinite(ld).all())):
            if bw is not None and bw.param_max[0] > 10.0:
                res.labels.append("extreme_conditioner_params")  # conditioner fed with inputs of size ~tail bound: softmax underflow
                res.inconclusive += 1
                return res
            res.fail("nonfinite_in_domain", kind, "in-domain value %r (%s) gave non-finite results: out=%s ld=%s" % (
                vv, place, out.reshape(-1).tolist()[:6], ld.tolist()), place=place, fam=case.get("fam"), dtype="f64" if case["precise"] else "f32",
                regime=case["regime"], direction="inverse" if inverse else "forward")
    return res
