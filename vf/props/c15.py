"""C15 - saving and reloading a model (state_dict into a fresh, differently seeded instance) reproduces the same function."""
import copy
import io

import numpy as np
import torch
from hypothesis import strategies as st

from vf import zoo
from vf.core import CaseResult, dtype_mode

PROPERTY = "C15"
RULE = ("A zoo transform (random permutations, random-mask MADE, couplings, 1x1 convolutions, splines, normalisation layers, "
        "Sigmoid temperature buffer/parameter, composites), a Flow over it (optional embedding net, conditional base), "
        "MaskedAutoregressiveFlow(random permutations / random masks / batch-norm), SimpleRealNVP, or a bare distribution (MADEMoG with random masks / "
        "residual blocks / 1-3 components, also as a flow's base; conditional normal / Bernoulli with Linear encoders; DiagonalNormal); history before saving: "
        "fresh / k SGD steps / 0-3 training-mode forwards (data-dependent initialisation, running statistics). The state "
        "dict (optionally through torch.save/torch.load on an in-memory buffer) is loaded with strict=True into an instance "
        "built from the same constructor arguments under a different random seed. Oracle: forward, inverse, log_prob and "
        "transform_to_noise of the two models are bit-identical in evaluation mode (float32, one thread), and the same "
        "training-mode forward applied to copies of both gives bit-identical results (initialisation flags travel). "
        "The receiving model may have been used before (evaluation mode, caches filled); constructors must leave a shared layer-size list "
        "unchanged. Non-trivial: the two fresh instances differ before loading. Distinct = distinct case JSON.")
ASSUMPTIONS = ["same process, one BLAS thread: identical values through identical operations are bit-identical (measured on the pinned tree)"]
EXPLANATION = "generated"


def budget(tier):
    return {"examples": 5000 if tier == "quick" else 150000, "wall_s": 100 if tier == "quick" else 1500}


@st.composite
def _case(draw):
    kind = draw(st.sampled_from(["transform", "transform", "transform", "flow", "flow", "maf", "realnvp", "dist"]))
    c = draw(zoo.transform_case({"regimes": ["fresh"], "umnn": draw(st.integers(0, 12)) == 0,
                                 "only": None}))
    c["init"]["reload"] = False
    c["kind"] = kind
    c["history"] = draw(st.sampled_from(["fresh", "sgd", "train_fwd", "train_fwd", "perturb"]))
    c["k"] = draw(st.integers(0, 3))
    c["via_buffer"] = draw(st.booleans())
    c["warm_receiver"] = draw(st.booleans())
    c["seed"] = draw(st.integers(0, 10 ** 6))
    c["base"] = draw(st.sampled_from(["standard", "conditional", "diagonal", "mademog"]))
    c["mog"] = {"random_mask": draw(st.booleans()), "res": draw(st.booleans()), "K": draw(st.integers(1, 3)), "blocks": draw(st.integers(1, 2)),
                "custom_init": draw(st.booleans())}
    if kind == "dist":
        c["dist"] = draw(st.sampled_from(["mademog", "mademog", "conditional", "diagonal", "bernoulli"]))
        c["features"] = draw(st.integers(1, 5))
        c["dctx"] = draw(st.sampled_from([None, 2])) if c["dist"] == "mademog" else 2
    c["embed"] = draw(st.booleans())
    if kind in ("maf", "realnvp"):
        c["features"] = draw(st.integers(2, 5))
        c["layers"] = draw(st.integers(1, 3))
        c["randperm"] = draw(st.booleans())
        c["randmask"] = draw(st.booleans())
        c["bn_within"] = draw(st.booleans())
        c["bn_between"] = draw(st.booleans())
        c["volume_preserving"] = draw(st.booleans())
    return c


def case_strategy(tier):
    return _case()


def _build(case, seed, shift):
    from nflows import distributions as dist
    from nflows.flows import Flow, MaskedAutoregressiveFlow, SimpleRealNVP

    torch.manual_seed(seed)
    kind = case["kind"]
    if kind == "maf":
        res_blocks = not case["randmask"]
        m = MaskedAutoregressiveFlow(case["features"], 8, case["layers"], 1, use_residual_blocks=res_blocks, use_random_masks=case["randmask"],
                                     use_random_permutations=case["randperm"], batch_norm_within_layers=case["bn_within"],
                                     batch_norm_between_layers=case["bn_between"])
        return m, [case["features"]], None, "R"
    if kind == "realnvp":
        m = SimpleRealNVP(case["features"], 8, case["layers"], 1, use_volume_preserving=case["volume_preserving"],
                          batch_norm_within_layers=case["bn_within"], batch_norm_between_layers=case["bn_between"])
        return m, [case["features"]], None, "R"
    if kind == "dist":
        F, mg = case["features"], case["mog"]
        if case["dist"] == "mademog":
            m = dist.MADEMoG(F, 8, case["dctx"], num_blocks=mg["blocks"], num_mixture_components=mg["K"], random_mask=mg["random_mask"],
                             use_residual_blocks=mg["res"] and not mg["random_mask"], custom_initialization=mg["custom_init"])
            return m, [F], case["dctx"], "R"
        if case["dist"] == "conditional":
            return dist.ConditionalDiagonalNormal([F], context_encoder=torch.nn.Linear(2, 2 * F)), [F], 2, "R"
        if case["dist"] == "bernoulli":
            return dist.ConditionalIndependentBernoulli([F], context_encoder=torch.nn.Linear(2, F)), [F], 2, "01"
        return dist.DiagonalNormal([F]), [F], None, "R"
    spec = zoo.reseed(case["spec"], shift)
    b = zoo.build(spec, case["shape"], case.get("ctx"))
    if kind == "flow" and len(b.out_shape) == 1 and len(b.in_shape) == 1:
        D = b.out_shape[0]
        ctxk = case.get("ctx")
        if case["base"] == "conditional" and ctxk is not None:
            base = dist.ConditionalDiagonalNormal([D], context_encoder=torch.nn.Linear(ctxk, 2 * D))
        elif case["base"] == "mademog":
            mg = case["mog"]
            base = dist.MADEMoG(D, 8, ctxk, num_blocks=mg["blocks"], num_mixture_components=mg["K"], random_mask=mg["random_mask"],
                                use_residual_blocks=mg["res"] and not mg["random_mask"], custom_initialization=mg["custom_init"])
        elif case["base"] == "diagonal":
            base = dist.DiagonalNormal([D])
        else:
            base = dist.StandardNormal([D])
        emb = torch.nn.Linear(3, ctxk) if (case["embed"] and ctxk is not None) else None
        return Flow(b.module, base, embedding_net=emb), b, (3 if emb is not None else ctxk), case["dom"]
    return b.module, b, case.get("ctx"), case["dom"]


def _inputs(case, b, ctxw, n, seed):
    g = torch.Generator().manual_seed(seed)
    if isinstance(b, list):
        X = torch.randn([n] + b, generator=g)
        if case.get("kind") == "dist" and case.get("dist") == "bernoulli":
            X = (X > 0).float()
        shape = b
    else:
        X, _ = zoo.gen_inputs(b, n, seed, 0.2, 1.0, dom=case["dom"])
        shape = b.in_shape
    C = None
    if ctxw is not None:
        C = torch.randn([n, ctxw] + (list(shape[1:]) if (len(shape) == 3 and case["kind"] == "transform") else []), generator=g)
    return X, C


def _calls(obj, X, C, is_flow, b):
    out = {}

    def rec(name, f):
        try:
            r = f()
            out[name] = [t.detach().clone() for t in (r if isinstance(r, tuple) else (r,))]
        except Exception as e:
            out[name] = "raised:" + type(e).__name__
    if is_flow:
        rec("log_prob", lambda: obj.log_prob(X, C))
        if hasattr(obj, "transform_to_noise"):
            rec("transform_to_noise", lambda: obj.transform_to_noise(X, C))
        torch.manual_seed(77)
        rec("sample", lambda: obj.sample(2, C))
    else:
        rec("forward", lambda: obj(X, C))
        if not isinstance(out["forward"], str) and (isinstance(b, list) or (b.invertible and not b.umnn)):
            Y = out["forward"][0]
            rec("inverse", lambda: obj.inverse(Y, C))
    return out


def _cp(obj):
    """deep copy where possible; a module holding a non-leaf tensor attribute cannot be deep-copied - then the object itself is used
    (evaluation-mode calls do not change it)"""
    try:
        return copy.deepcopy(obj)
    except RuntimeError:
        return obj


def _same(a, b):
    if isinstance(a, str) or isinstance(b, str):
        return a == b
    return len(a) == len(b) and all(x.shape == y.shape and x.dtype == y.dtype and bool(torch.allclose(x, y, rtol=0, atol=0, equal_nan=True))
                                    for x, y in zip(a, b))


def run_case(case):
    res = CaseResult()
    with dtype_mode(False):
        A, bA, ctxw, dom = _build(case, case["seed"], 0)
        is_flow = case["kind"] in ("flow", "maf", "realnvp", "dist") and hasattr(A, "log_prob")
        site = type(A).__name__
        res.labels += ["kind:" + case["kind"], "history:" + case["history"], "via_buffer:%s" % case["via_buffer"]] + \
            (["top:" + case["spec"]["t"]] if case["kind"] in ("transform", "flow") else []) + \
            (["dist:" + case["dist"]] if case["kind"] == "dist" else []) + (["base:" + case["base"]] if case["kind"] == "flow" else [])
        n = 3
        Xh, Ch = _inputs(case, bA, ctxw, 4, case["seed"] + 5)
        # ---- history before saving
        try:
            if case["history"] == "perturb":
                zoo.apply_regime(A, "small", case["seed"])
            elif case["history"] == "sgd":
                A.train()
                opt = torch.optim.SGD(A.parameters(), lr=0.05)
                for _ in range(case["k"]):
                    opt.zero_grad()
                    loss = -A.log_prob(Xh, Ch).mean() if is_flow else (lambda r: r[0].pow(2).mean() - r[1].mean())(A(Xh, Ch))
                    if not bool(torch.isfinite(loss)):
                        break
                    loss.backward()
                    opt.step()
            elif case["history"] == "train_fwd":
                A.train()
                with torch.no_grad():
                    for j in range(case["k"]):
                        Xj, Cj = _inputs(case, bA, ctxw, 4, case["seed"] + 11 + j)
                        (A.log_prob(Xj, Cj) if is_flow else A(Xj, Cj))
        except Exception as e:
            res.labels.append("history_raised:" + type(e).__name__)
        for p in A.parameters():
            if not bool(torch.isfinite(p).all()):
                res.inconclusive += 1
                return res
        # ---- fresh instance under another seed
        B, bB, _, _ = _build(case, case["seed"] + 424243, 7919)
        if zoo.UMNN_LAYERS != [8, 8]:
            bad = list(zoo.UMNN_LAYERS)
            zoo.UMNN_LAYERS[:] = [8, 8]
            res.fail("constructor_modified_its_argument", site, "the integrand_net_layers list handed to two constructions came back as %r: the same "
                     "configuration no longer builds the same architecture" % (bad,))
            res.nontrivial = True
            return res
        if case.get("warm_receiver"):
            # the receiving model has been used before the checkpoint arrives (evaluation mode: caches of linear layers are filled)
            try:
                B.eval()
                Xw, Cw = _inputs(case, bA, ctxw, 2, case["seed"] + 77)
                with torch.no_grad():
                    _calls(B, Xw, Cw, is_flow, bA)
                res.labels.append("warm_receiver")
            except Exception:
                pass
        X, C = _inputs(case, bA, ctxw, n, case["seed"] + 99)
        A.eval()
        B.eval()
        with torch.no_grad():
            before_A, before_B = _calls(_cp(A), X, C, is_flow, bA), _calls(_cp(B), X, C, is_flow, bA)
        differ = any(not _same(before_A[k], before_B[k]) for k in before_A)
        sd = A.state_dict()
        if case["via_buffer"]:
            buf = io.BytesIO()
            torch.save(sd, buf)
            buf.seek(0)
            sd = torch.load(buf)
        try:
            B.load_state_dict(sd, strict=True)
        except Exception as e:
            res.fail("load_state_dict_failed", site, "strict load into a fresh instance of the same configuration failed: %s" % str(e)[:300])
            res.nontrivial = True
            return res
        with torch.no_grad():
            rA, rB = _calls(_cp(A), X, C, is_flow, bA), _calls(_cp(B), X, C, is_flow, bA)
        for k in rA:
            if not _same(rA[k], rB[k]):
                d = "exception pattern differs" if isinstance(rA[k], str) or isinstance(rB[k], str) else \
                    "max diff %g" % max(float((x - y).abs().max()) for x, y in zip(rA[k], rB[k]) if x.numel())
                res.fail("reload_differs", site, "%s of the reloaded model differs from the original in evaluation mode (%s); history=%s" % (
                    k, d, case["history"]), method=k, history=case["history"])
                res.nontrivial = True
                return res
        # ---- the same training-mode call on copies of both (initialisation flags / statistics must have travelled)
        A2, B2 = _cp(A).train(), _cp(B).train()
        Xt, Ct = _inputs(case, bA, ctxw, 4, case["seed"] + 1234)
        with torch.no_grad():
            torch.manual_seed(5)
            tA = _calls(A2, Xt, Ct, is_flow, bA)
            torch.manual_seed(5)
            tB = _calls(B2, Xt, Ct, is_flow, bA)
        first = "log_prob" if is_flow else "forward"
        if not _same(tA[first], tB[first]):
            res.fail("reload_differs_in_training_call", site, "the same training-mode %s on original and reloaded model differs; history=%s" % (
                first, case["history"]), method=first, history=case["history"])
        res.nontrivial = differ
    return res
