"""C06 - MADE conditioners are strictly autoregressive for every architecture and every weight (both copies)."""
import itertools

import numpy as np
import torch
from torch.nn import functional as F
from hypothesis import strategies as st

from vf.core import CaseResult, dtype_mode

PROPERTY = "C06"
RULE = ("A MADE network from either copy (nflows.transforms.made, nflows.nn.nde.made incl. MixtureOfGaussiansMADE): exhaustive grid "
        "features 1-5 x hidden 1-7 x blocks 0-2 x {residual, feed-forward} x {sequential, random mask (3 seeds)} x context "
        "{none, 2} x output multiplier 1-3 x batch-norm on/off (thorough: features<=6, hidden<=9, blocks<=3, multiplier<=4, 8 seeds), "
        "plus Hypothesis-generated larger sizes (features up to 12 and 64/129/257/300 with hidden 128-320). Oracle A (all weights at once): identity activation, EVERY weight and bias "
        "entry (masked positions included) overwritten by strictly positive numbers -> Jacobian entry d out_j/d in_i is > 0 iff "
        "an unmasked path exists; assert exact zeros for i >= feature(j) and report how many allowed entries are positive. "
        "Oracle B: signed weights + relu/tanh, perturb inputs i.. (all rows, train or eval mode, dropout off) -> output blocks "
        "of features <= i bit-identical. Oracle C: masked autoregressive transforms have lower-triangular Jacobians; the MoG "
        "log-density of feature d does not move with x_{>=d}. Non-trivial: features >= 2. Distinct = distinct case JSON.")
ASSUMPTIONS = ["the forward pass consists of masked-linear layers, elementwise maps, batch-norm and sums (premise of the sign argument); "
               "the premise itself is tested by oracle B with signed weights and real activations"]
EXHAUSTIVE = {"quick": True, "thorough": True}
EXPLANATION = "exhaustive over the named architecture grid (each architecture decided for all weights by the sign argument)"


def budget(tier):
    return {"examples": 1500 if tier == "quick" else 40000, "wall_s": 100 if tier == "quick" else 1500}


def enumerate_cases(tier):
    q = tier == "quick"
    feats = range(1, 6 if q else 7)
    hid = range(1, 8 if q else 10)
    blocks = range(0, 3 if q else 4)
    mults = range(1, 4 if q else 5)
    seeds = range(3 if q else 8)
    cases = []
    for f, h, b, ctx, mult, bn, copy in itertools.product(feats, hid, blocks, (None, 2), mults, (False, True), ("transforms", "nde")):
        base = {"copy": copy, "features": f, "hidden": h, "blocks": b, "ctx": ctx, "mult": mult, "bn": bn, "oracle": "sign"}
        cases.append(dict(base, res=True, randmask=False, seed=0))
        cases.append(dict(base, res=False, randmask=False, seed=0))
        for s in seeds:
            cases.append(dict(base, res=False, randmask=True, seed=s))
    # constructor contract: residual blocks + random masks must be refused
    for copy in ("transforms", "nde", "mog"):
        cases.append({"copy": copy, "features": 3, "hidden": 4, "blocks": 1, "ctx": None, "mult": 1, "bn": False, "res": True,
                      "randmask": True, "seed": 0, "oracle": "refuse"})
    return cases


@st.composite
def _case(draw):
    copy = draw(st.sampled_from(["transforms", "nde", "mog", "ar_affine", "ar_rq", "mog", "ar_lin", "ar_quad", "ar_cub", "ar_umnn"]))
    res = draw(st.booleans())
    big = draw(st.integers(0, 9)) == 0 and copy in ("transforms", "nde")
    c = {"copy": copy, "features": draw(st.sampled_from([64, 129, 257, 300])) if big else draw(st.integers(1, 12)),
         "hidden": draw(st.sampled_from([128, 255, 256, 257, 320])) if big else draw(st.integers(1, 40)), "blocks": draw(st.integers(0, 2 if big else 3)),
         "ctx": draw(st.sampled_from([None, 1, 3])), "mult": draw(st.integers(1, 4)), "bn": draw(st.booleans()),
         "res": res, "randmask": (not res) and draw(st.booleans()), "seed": draw(st.integers(0, 10 ** 6)),
         "oracle": draw(st.sampled_from(["sign", "perturb", "perturb"])), "act": draw(st.sampled_from(["relu", "tanh"])),
         "train": draw(st.booleans()), "dropout": draw(st.sampled_from([0.0, 0.0, 0.5])), "rows": draw(st.integers(1, 4)),
         "wseed": draw(st.integers(0, 10 ** 6)), "after": draw(st.sampled_from(["assign", "load_state_dict", "sgd"]))}
    if big:
        c["mult"], c["oracle"], c["bn"] = 1, "sign", False
    if copy.startswith("ar_") or copy == "mog":
        c["oracle"] = "perturb" if copy == "mog" else "jac"
        c["mult"] = draw(st.integers(1, 3))  # mixture components for mog
    if copy == "ar_umnn":
        c["features"] = draw(st.integers(1, 4))
        c["cond_size"] = draw(st.sampled_from([1, 2, 4, 6]))
        c["solver"] = draw(st.sampled_from(["CC", "CCParallel"]))
        c["bn"] = False
    return c


def case_strategy(tier):
    return _case()


ACT = {"relu": F.relu, "tanh": torch.tanh, "identity": (lambda x: x)}


def _make(case, activation):
    from nflows.transforms import made as m1
    from nflows.nn.nde import made as m2

    kw = dict(features=case["features"], hidden_features=case["hidden"], context_features=case["ctx"], num_blocks=case["blocks"],
              use_residual_blocks=case["res"], random_mask=case["randmask"], activation=activation,
              dropout_probability=case.get("dropout", 0.0), use_batch_norm=case["bn"])
    g = torch.random.get_rng_state()
    torch.manual_seed(case["seed"])
    try:
        if case["copy"] == "transforms":
            return m1.MADE(output_multiplier=case["mult"], **kw)
        if case["copy"] == "nde":
            return m2.MADE(output_multiplier=case["mult"], **kw)
        if case["copy"] == "mog":
            return m2.MixtureOfGaussiansMADE(num_mixture_components=case["mult"], custom_initialization=bool(case["seed"] % 2), **kw)
    finally:
        torch.random.set_rng_state(g)
    raise ValueError(case["copy"])


def _overwrite(net, gen, positive, how="assign"):
    """Every weight/bias entry (masked positions included) gets a fresh value; masks/degrees are left alone."""
    if how == "load_state_dict":
        sd = {k: v.clone() for k, v in net.state_dict().items()}
        for k, v in sd.items():
            if k.endswith(("weight", "bias")) and v.dtype.is_floating_point:
                r = torch.rand(v.shape, generator=gen, dtype=v.dtype)
                sd[k] = (r + 0.1) if positive else (r * 2 - 1)
        net.load_state_dict(sd)
        return
    with torch.no_grad():
        for n, p in net.named_parameters():
            r = torch.rand(p.shape, generator=gen, dtype=p.dtype)
            p.copy_((r + 0.1) if positive else (r * 2 - 1))
        for n, b in net.named_buffers():
            if n.endswith("running_var"):
                b.copy_(torch.rand(b.shape, generator=gen, dtype=b.dtype) + 0.5)
            elif n.endswith("running_mean"):
                b.copy_(torch.rand(b.shape, generator=gen, dtype=b.dtype))


def run_case(case):
    res = CaseResult()
    f, mult = case["features"], case["mult"]
    site = {"transforms": "transforms/made.py:MADE", "nde": "nn/nde/made.py:MADE", "mog": "nn/nde/made.py:MixtureOfGaussiansMADE",
            "ar_affine": "MaskedAffineAutoregressiveTransform", "ar_rq": "MaskedPiecewiseRationalQuadraticAutoregressiveTransform",
            "ar_lin": "MaskedPiecewiseLinearAutoregressiveTransform", "ar_quad": "MaskedPiecewiseQuadraticAutoregressiveTransform",
            "ar_cub": "MaskedPiecewiseCubicAutoregressiveTransform", "ar_umnn": "MaskedUMNNAutoregressiveTransform"}[case["copy"]]
    res.labels += ["copy:" + case["copy"], "oracle:" + case["oracle"], "blocks:%d" % case["blocks"],
                   "res" if case["res"] else ("ff-rand" if case["randmask"] else "ff-seq"), "bn:%s" % case["bn"], "ctx:%s" % (case["ctx"] is not None)]
    with dtype_mode(True):
        gen = torch.Generator().manual_seed(case.get("wseed", case["seed"]) + 17)
        if case["oracle"] == "refuse":
            try:
                _make(case, F.relu)
            except ValueError:
                res.nontrivial = True
                return res
            res.fail("missing_rejection", site, "residual blocks + random masks accepted")
            return res

        if case["oracle"] == "sign":
            net = _make(case, ACT["identity"])
            net.eval()
            _overwrite(net, gen, positive=True, how=case.get("after", "assign") if case.get("after") != "sgd" else "assign")
            x = torch.rand(1, f, generator=gen)
            ctx = torch.rand(1, case["ctx"], generator=gen) if case["ctx"] else None
            J = torch.autograd.functional.jacobian(lambda v: net(v, ctx)[0], x)[:, 0, :]  # [out, in]
            nout = J.shape[0]
            per = nout // f
            if nout != f * (mult * (3 if case["copy"] == "mog" else 1)):
                res.fail("output_size", site, "output size %d" % nout)
                return res
            blk = torch.arange(nout) // per   # feature-major ordering: outputs of feature i are rows i*m .. (i+1)*m-1
            allowed = blk[:, None] > torch.arange(f)[None, :]
            leak = (J != 0) & ~allowed
            if bool(leak.any()):
                j, i = [int(v) for v in leak.nonzero()[0]]
                res.fail("autoregressive_leak", site, "output %d (block of feature %d) depends on input %d: dJ=%g" % (j, int(blk[j]), i, float(J[j, i])),
                         arch={k: case[k] for k in ("features", "hidden", "blocks", "res", "randmask", "mult", "bn", "ctx")})
            npos = int(((J > 0) & allowed).sum())
            res.labels.append("connectivity:%s" % ("complete" if npos == int(allowed.sum()) else ("partial" if npos else "none")))
            res.nontrivial = f >= 2
            return res

        if case["oracle"] == "perturb":
            net = _make(case, ACT[case.get("act", "relu")])
            train = bool(case.get("train")) and case.get("dropout", 0.0) == 0.0
            rows = max(2, case.get("rows", 2)) if (train and case["bn"]) else case.get("rows", 2)
            if case.get("after") == "sgd":
                opt = torch.optim.SGD(net.parameters(), lr=0.1)
                xx = torch.randn(4, f, generator=gen)
                cc = torch.randn(4, case["ctx"], generator=gen) if case["ctx"] else None
                out = net(xx, cc) if case["copy"] != "mog" else net.log_prob(xx, cc)
                out.pow(2).sum().backward()
                opt.step()
            else:
                _overwrite(net, gen, positive=False, how=case.get("after", "assign"))
            net.train(train)
            if not train:
                net.eval()
            x = torch.randn(rows, f, generator=gen)
            ctx = torch.randn(rows, case["ctx"], generator=gen) if case["ctx"] else None
            with torch.no_grad():
                base = net(x, ctx)
                per = base.shape[1] // f
                for i in range(f):
                    x2 = x.clone()
                    x2[:, i:] = x2[:, i:] + torch.randn(rows, f - i, generator=gen) * 3
                    if train and case["bn"]:
                        pass  # batch statistics of features < i are unchanged because those inputs are unchanged
                    out = net(x2, ctx)
                    keep = (i + 1) * per
                    if not torch.equal(out[:, :keep], base[:, :keep]):
                        d = (out[:, :keep] != base[:, :keep]).nonzero()[0]
                        res.fail("autoregressive_leak", site, "changing inputs %d.. changed output %d (block of feature %d)" % (i, int(d[1]), int(d[1]) // per),
                                 arch={k: case[k] for k in ("features", "hidden", "blocks", "res", "randmask", "mult", "bn", "ctx")})
                        break
                if case["copy"] == "mog" and not res.failures and f >= 2:
                    # factorisation: log p(x) = sum_d log p(x_d | x_<d); the partial sum over d <= k must not move with x_{>k}
                    lp_full = net.log_prob(x, ctx)
                    k = int(torch.randint(0, f - 1, (1,), generator=gen))
                    x3 = x.clone()
                    x3[:, k + 1:] += 1.7
                    o1 = net(x, ctx).reshape(rows, f, case["mult"], 3)[:, : k + 1]
                    o3 = net(x3, ctx).reshape(rows, f, case["mult"], 3)[:, : k + 1]
                    if not torch.equal(o1, o3):
                        res.fail("mog_not_factorised", site, "mixture parameters of features <= %d moved with x_{>%d}" % (k, k))
                    # several leading batch dimensions (a grid of points [a, b, F]) are one density evaluated at a*b points
                    if not res.failures and ctx is None and rows >= 2 and not case["bn"]:     # (BatchNorm1d reads [a, b, H] as channels: 2-D only)
                        xg = torch.cat([x, x3], 0).reshape(2, rows, f)
                        lg = net.log_prob(xg)
                        l2 = torch.cat([net.log_prob(x), net.log_prob(x3)], 0).reshape(2, rows)
                        if tuple(lg.shape) != (2, rows) or float((lg - l2).abs().max()) > 1e-10 * (1 + float(l2.abs().max())):
                            res.fail("mog_not_factorised", site, "log_prob of a [2, %d, %d] grid differs from the same points as a flat batch "
                                     "(shape %s, max diff %g)" % (rows, f, tuple(lg.shape), float((lg.reshape(-1) - l2.reshape(-1)).abs().max()) if lg.numel() == l2.numel() else float("nan")))
            res.nontrivial = f >= 2
            res.labels.append("mode:" + ("train" if train else "eval"))
            return res

        if case["oracle"] == "jac":
            from nflows import transforms as T

            kw = dict(features=f, hidden_features=max(case["hidden"], 1), context_features=case["ctx"], num_blocks=case["blocks"],
                      use_residual_blocks=case["res"], random_mask=case["randmask"], activation=ACT[case.get("act", "relu")],
                      use_batch_norm=case["bn"])
            g = torch.random.get_rng_state()
            torch.manual_seed(case["seed"])
            try:
                cp = case["copy"]
                if cp == "ar_affine":
                    t = T.MaskedAffineAutoregressiveTransform(**kw)
                elif cp == "ar_lin":
                    t = T.MaskedPiecewiseLinearAutoregressiveTransform(num_bins=3, **kw)
                elif cp == "ar_quad":
                    t = T.MaskedPiecewiseQuadraticAutoregressiveTransform(num_bins=3, tails="linear", tail_bound=2.0, **kw)
                elif cp == "ar_cub":
                    t = T.MaskedPiecewiseCubicAutoregressiveTransform(num_bins=3, **kw)
                elif cp == "ar_umnn":
                    kw.pop("use_batch_norm")
                    t = T.MaskedUMNNAutoregressiveTransform(integrand_net_layers=[6, 6], cond_size=case.get("cond_size", 2), nb_steps=12,
                                                           solver=case.get("solver", "CC"), use_batch_norm=False, **kw)
                else:
                    t = T.MaskedPiecewiseRationalQuadraticAutoregressiveTransform(num_bins=3, tails="linear", tail_bound=2.0, **kw)
            finally:
                torch.random.set_rng_state(g)
            _overwrite(t, gen, positive=False)
            t.eval()
            x = torch.rand(1, f, generator=gen) * 0.9 + 0.05 if case["copy"] in ("ar_lin", "ar_cub") else torch.randn(1, f, generator=gen)
            ctx = torch.randn(1, case["ctx"], generator=gen) if case["ctx"] else None
            J = torch.autograd.functional.jacobian(lambda v: t(v, ctx)[0][0], x)[:, 0, :]
            upper = torch.triu(J, diagonal=1)
            if bool((upper != 0).any()):
                j, i = [int(v) for v in (upper != 0).nonzero()[0]]
                res.fail("jacobian_not_triangular", site, "d out_%d / d in_%d = %g" % (j, i, float(J[j, i])))
            if bool((torch.diagonal(J) <= 1e-12).any()) and case["copy"] not in ("ar_affine", "ar_rq"):
                # +-1 weights through 40 hidden units drive softmax bins / the UMNN integrand to exact underflow: the triangular
                # structure (above) is decided, positivity and exact inversion are not meaningful for a singular Jacobian
                res.labels.append("degenerate_diagonal")
                res.inconclusive += 1
                res.nontrivial = f >= 2
                return res
            if bool((torch.diagonal(J) <= 0).any()):
                res.fail("nonpositive_diagonal", site, "diagonal %s" % torch.diagonal(J).tolist())
                return res
            _, ld = t(x, ctx)
            want = float(torch.log(torch.diagonal(J)).sum())
            if abs(float(ld[0]) - want) > 1e-8 * (1 + abs(want)):
                res.fail("logdet_vs_diagonal", site, "logabsdet %r but sum log diag %r" % (float(ld[0]), want))
            # exact inverse after one pass per feature
            y, _ = t(x, ctx)
            xb, _ = t.inverse(y, ctx)
            Ji = torch.linalg.inv(J)
            kap = float(Ji.abs().sum(1).max()) * (1 + float(J.abs().sum(1).max()))
            # (UMNN inverts by 25 bisection steps on [-20, 20]: declared resolution 40 / 2^25 per feature, propagated through the pass)
            decl = 40.0 / 2 ** 25 * 2 if case["copy"] == "ar_umnn" else 0.0
            # (UMNN: the inverse is a bisection against a quadrature, not D exact passes - its accuracy is C02's declared-constant business)
            if case["copy"] != "ar_umnn" and kap < 1e6 and float((xb - x).abs().max()) > (1e-12 * (1 + float(x.abs().max())) + decl) * kap * f:
                res.fail("inverse_not_exact", site, "inverse after %d passes off by %g (kappa %g)" % (f, float((xb - x).abs().max()), kap))
            res.nontrivial = f >= 2
            return res
    raise AssertionError(case["oracle"])
