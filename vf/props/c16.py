"""C16 - outputs, log-abs-dets and log_prob are differentiable with correct, finite gradients (autograd vs central differences)."""
import json

import numpy as np
import torch
from hypothesis import strategies as st

from vf import zoo
from vf.core import CaseResult, dtype_mode

PROPERTY = "C16"
RULE = ("A zoo transform (forward or inverse direction) or a flow's log_prob over it, float64, training or evaluation mode, "
        "smooth conditioner activations in ~70 % of cases, regimes fresh/small/moderate, 2-3 random in-domain rows (plus exact "
        "zeros, which are smooth points of every transform but LeakyReLU). Scalar s = <r, outputs> + <q, logabsdet> (or "
        "sum log_prob) with drawn r, q. Oracles: torch.autograd.grad(s, [inputs, context, *parameters]) succeeds and is "
        "finite; for the inputs, the context, each of up to 4 parameter tensors and all parameters jointly, a drawn direction d: "
        "<grad, d> equals the central difference (s(+hd)-s(-hd))/2h, h=1e-6, cross-checked at h/2 (disagreement of the two step "
        "sizes = kink -> inconclusive); a tensor whose finite difference is non-zero must not get a None/zero gradient; a second "
        "forward+backward succeeds. Also: s built from sample_and_log_prob(2, context) under a fixed RNG state (reparameterised draws), and "
        "every target optionally after one ordinary training step (training-mode forward on inputs with autograd history + backward), or after a call in the other direction (half-filled evaluation-mode caches). Difference quotients whose noise - measured at "
        "neighbouring floating-point inputs - dominates are inconclusive. Non-trivial: some parameter tensor has a non-zero directional derivative.")
ASSUMPTIONS = ["UMNN gradients are quadrature-approximate (Clenshaw-Curtis with 20 nodes; tolerance 5e-2 relative)", "kinks (ReLU-type conditioners, knots of the linear "
               "spline) are detected by step-size disagreement and skipped"]
EXPLANATION = "generated"


def budget(tier):
    return {"examples": 6000 if tier == "quick" else 120000, "wall_s": 110 if tier == "quick" else 1500}


@st.composite
def _case(draw):
    smooth = draw(st.integers(0, 9)) < 7
    c = draw(zoo.transform_case({"regimes": ["fresh", "small", "moderate"], "smooth": smooth, "umnn": draw(st.integers(0, 15)) == 0,
                                 "flat_max": 5}))
    c["mode"] = draw(st.sampled_from(["eval", "train"]))
    c["target"] = draw(st.sampled_from(["forward", "forward", "inverse", "log_prob", "sample"]))
    c["pre"] = draw(st.sampled_from([None, None, "train_step", "other_direction_first"]))     # an ordinary training step (forward + backward in training mode) first
    c["n"] = draw(st.integers(2, 3))
    c["seed"] = draw(st.integers(0, 10 ** 6))
    c["zeros"] = draw(st.booleans())
    return c


def case_strategy(tier):
    return _case()


def _has(spec, names):
    if spec["t"] in names:
        return True
    if "parts" in spec and any(_has(p, names) for p in spec["parts"]):
        return True
    return "of" in spec and _has(spec["of"], names)


def _zero_is_smooth(spec):
    """True if an exact 0 input cannot sit on a kink: no spline (knots / tail junction can be at 0 or reached from it), no
    LeakyReLU, no ReLU/ELU conditioner."""
    t = spec["t"]
    if t in ("composite", "multiscale"):
        return all(_zero_is_smooth(p) for p in spec["parts"])
    if t == "inverse":
        return _zero_is_smooth(spec["of"])
    if t in ("leakyrelu", "compositecdf") or t in zoo.FAM_OF:
        return False
    if t.startswith(("c_", "ar_")) and spec.get("act", "relu") not in zoo.SMOOTH_ACTS:
        return False
    return True


def run_case(case):
    from nflows.flows import Flow
    from nflows import distributions as dist

    res = CaseResult()
    with dtype_mode(True):
        torch.manual_seed(case["seed"])
        b = zoo.instantiate(case)
        m = b.module
        n, ctxk = case["n"], case.get("ctx")
        g = torch.Generator().manual_seed(case["seed"] + 1)
        X, _ = zoo.gen_inputs(b, n, case["seed"] + 2, 0.0, 1.0, dom=case["dom"])
        # an exact 0 is a smooth point of tanh-like maps (LogTanh's kinks are at +-cut) but a knot of identity-initialised
        # splines, the kink of LeakyReLU and possibly of ReLU conditioners: inject it only where the map is smooth there
        if case["zeros"] and case["dom"] == "R" and _zero_is_smooth(case["spec"]):
            X.reshape(n, -1)[0, 0] = 0.0
        C = zoo.gen_context(b, ctxk, n, case["seed"]) if ctxk is not None else None
        target = case["target"]
        flat = len(b.out_shape) == 1
        if target in ("log_prob", "sample") and (not flat or len(b.in_shape) != 1):
            target = "forward"
        if target == "sample" and (not b.invertible or b.inv_via_forward or b.umnn):
            target = "log_prob"
        if target == "inverse" and (not b.invertible or b.inv_via_forward):
            target = "forward"
        obj = m
        if target in ("log_prob", "sample"):
            D = b.out_shape[0]
            base = dist.ConditionalDiagonalNormal([D], context_encoder=torch.nn.Linear(ctxk, 2 * D)) if (ctxk is not None and case["seed"] % 2) \
                else dist.StandardNormal([D])
            obj = Flow(m, base)
        train = case["mode"] == "train"
        obj.train(train)
        site = type(m).__name__
        res.labels += ["target:" + target, "mode:" + case["mode"], "top:" + case["spec"]["t"], "smooth:%s" % b.smooth] + ["tag:" + t for t in b.tags[:3]]
        if not zoo.chain_moderate(b, X, C, case["spec"]):
            res.inconclusive += 1
            return res
        if case.get("pre") == "train_step":
            # what every training loop does before anyone evaluates: a training-mode forward on inputs that carry autograd history,
            # and a backward (parameters are left alone; data-dependent initialisation / running statistics may move)
            obj.train(True)
            try:
                Xp = X.clone().requires_grad_(True) * 1.0
                Cp = (C.clone().requires_grad_(True) * 1.0) if C is not None else None
                if target in ("log_prob", "sample"):
                    sp_ = obj.log_prob(Xp, Cp).sum()
                else:
                    o_, l_ = m(Xp, Cp)
                    sp_ = o_.sum() + l_.sum()
                if bool(torch.isfinite(sp_)):
                    sp_.backward()
            except Exception:
                res.inconclusive += 1
                return res
            obj.zero_grad()
            obj.train(train)
            res.labels.append("after_train_step")
        if case.get("pre") == "other_direction_first" and b.invertible and not b.inv_via_forward and not b.umnn and target != "sample":
            # sampling before scoring (or the reverse): layers that cache derived matrices in evaluation mode fill one half of their
            # cache here and complete it in the differentiated call below
            with torch.no_grad():
                try:
                    if target == "inverse":
                        m(X, C)
                    else:
                        m.inverse(X, C)        # (X need not lie in the range: a refusal is as good as no call)
                    res.labels.append("other_direction_first")
                except Exception:
                    pass
        if target == "inverse":
            with torch.no_grad():
                try:
                    X = m(X, C)[0].detach().clone()
                except Exception:
                    res.inconclusive += 1
                    return res
            if not bool(torch.isfinite(X).all()) or not zoo.chain_moderate_inverse(b, X, C, case["spec"]):
                res.inconclusive += 1
                return res
        if train:
            with torch.no_grad():   # warm-up: data-dependent initialisation (ActNorm) happens once, before the function is fixed
                try:
                    (obj.log_prob(X, C) if target in ("log_prob", "sample") else (m.inverse(X, C) if target == "inverse" else m(X, C)))
                except Exception:
                    res.inconclusive += 1
                    return res
        r = q = None

        def s_of(Xv, Cv):
            nonlocal r, q
            if target == "log_prob":
                return obj.log_prob(Xv, Cv).sum()
            if target == "sample":
                # reparameterised draws: under a fixed RNG state the samples and their log-probabilities are smooth functions of the
                # context and of every parameter (base, encoder, transform)
                torch.manual_seed(case["seed"] + 9)
                smp, lp_ = obj.sample_and_log_prob(2, Cv)
                if r is None:
                    r = torch.randn(smp.shape, generator=g)
                    q = torch.randn(lp_.shape, generator=g)
                return (r * smp).sum() + (q * lp_).sum()
            out, ld = (m.inverse(Xv, Cv) if target == "inverse" else m(Xv, Cv))
            if r is None:
                r = torch.randn(out.shape, generator=g)
                q = torch.randn(ld.shape, generator=g)
            return (r * out).sum() + (q * ld).sum()

        if target in ("forward", "inverse"):
            with torch.no_grad():
                try:
                    ld0 = (m.inverse(X, C) if target == "inverse" else m(X, C))[1]
                except Exception:
                    ld0 = None
            if ld0 is not None and bool(torch.isfinite(ld0).all()) and float(ld0.abs().max()) > 20.0:
                # the map stretches or squeezes by more than e^20: rounding in the parameters (1e-16) already moves the result by
                # 1e-8 and more, finite differences cannot referee
                res.labels.append("extreme_slope")
                res.inconclusive += 1
                return res
        if '"act": "relu"' in json.dumps(case["spec"]):
            # ReLU conditioners: structural exact zeros (a zero-initialised layer, batch norm of a constant batch feeding exactly its
            # bias 0.0 into the ReLU) put several units exactly on their kink, where no difference quotient along one direction can
            # referee; move every parameter off such points by a small jitter (smooth activations are tested exactly as initialised)
            gj = torch.Generator().manual_seed(case["seed"] + 31)
            with torch.no_grad():
                for p_ in obj.parameters():
                    p_.add_(1e-3 * torch.randn(p_.shape, generator=gj))
            res.labels.append("relu_jitter")
        if target == "sample":
            with torch.no_grad():
                try:
                    torch.manual_seed(case["seed"] + 9)
                    smp0, lp0 = obj.sample_and_log_prob(2, C)
                except Exception:
                    smp0 = None
            if smp0 is None or not bool(torch.isfinite(smp0).all()) or not bool(torch.isfinite(lp0).all()) or float(smp0.abs().max()) > 1e3 \
                    or float(lp0.abs().max()) > 200:
                # the sampling direction runs through saturation (LeakyReLU^-1 stretches by 100, then sigmoid, then tan): the draws are
                # astronomically large and insensitive to 1e-6 steps
                res.labels.append("astronomical_samples")
                res.inconclusive += 1
                return res
        params = [(nm, p) for nm, p in obj.named_parameters() if p.requires_grad]
        Xr = X.clone().requires_grad_(True)
        Cr = C.clone().requires_grad_(True) if C is not None else None
        try:
            s = s_of(Xr, Cr)
        except Exception as e:
            if type(e).__name__ in ("InputOutsideDomain", "InverseNotAvailable"):    # (batch norm offers no inverse in training mode)
                res.inconclusive += 1
                return res
            raise
        if not bool(torch.isfinite(s)):
            res.inconclusive += 1
            return res
        if not s.requires_grad:
            return res      # sampling from a parameter-free flow without context: nothing to differentiate
        tens = [Xr] + ([Cr] if Cr is not None else []) + [p for _, p in params]
        names = ["inputs"] + (["context"] if Cr is not None else []) + [nm for nm, _ in params]
        try:
            grads = torch.autograd.grad(s, tens, allow_unused=True)
        except RuntimeError as e:
            res.fail("backward_failed", site, "autograd.grad raised: %s" % str(e)[:300], target=target)
            res.nontrivial = True
            return res
        for nm, gr in zip(names, grads):
            if gr is not None and not bool(torch.isfinite(gr).all()):
                res.fail("nonfinite_gradient", site, "gradient w.r.t. %s is not finite (target %s, mode %s)" % (nm, target, case["mode"]),
                         target=target, wrt=nm.split(".")[-1])
                res.nontrivial = True
                return res
        # second forward + backward must work as well (no stale graph / state)
        try:
            s2 = s_of(X.clone().requires_grad_(True), C.clone().requires_grad_(True) if C is not None else None)
            s2.backward()
        except RuntimeError as e:
            res.fail("second_backward_failed", site, "a second forward+backward raised: %s" % str(e)[:300], target=target)
            return res
        obj.zero_grad()
        # ---- directional finite differences
        umnn_any = b.umnn or _has(case["spec"], ("ar_umnn", "c_umnn"))        # (also as a part of a composite)
        tolrel = 5e-2 if umnn_any else 2e-5
        if _has(case["spec"], ("c_cub", "ar_cub", "cdf_cub", "fn_cub")) and (target == "inverse" or _has(case["spec"], ("inverse",))):
            tolrel = max(tolrel, 2e-4)   # cubic inverse: autograd differentiates the closed-form root (with its cancellation) plus two Newton steps

        one_sided = [0.0, 0.0]
        # how far s moves when the inputs move to the neighbouring floating-point numbers: a direction that stretches by e^19 near the
        # end of a box turns the 1e-16 grid of the inputs into a staircase of 1e-8 steps in s, which difference quotients with
        # h = 1e-6 cannot look through (a smooth s moves by 1e-16 * slope, which is nothing)
        ulp_jitter = 0.0
        if target != "sample":
            with torch.no_grad():
                for sgn_ in (1.0, -1.0):
                    try:
                        v_ = float(s_of(torch.nextafter(X, torch.full_like(X, sgn_ * float("inf"))), C))
                    except Exception:
                        continue
                    if np.isfinite(v_):
                        ulp_jitter = max(ulp_jitter, abs(v_ - float(s)))

        def fd(apply, h):
            with torch.no_grad():
                apply(+h)
                sp = float(s_of(X if apply.kind != "inputs" else apply.val, C if apply.kind != "context" else apply.val))
                apply(-2 * h)
                sm = float(s_of(X if apply.kind != "inputs" else apply.val, C if apply.kind != "context" else apply.val))
                apply(+h)
            one_sided[0], one_sided[1] = (sp - float(s)) / h, (float(s) - sm) / h
            return (sp - sm) / (2 * h)

        class Dir:
            def __init__(self, kind, tensors, ds):
                self.kind, self.tensors, self.ds = kind, tensors, ds
                self.orig = [t.detach().clone() for t in tensors]
                self.off = 0.0
                self.val = self.orig[0].clone() if kind in ("inputs", "context") else None

            def __call__(self, step):
                # positions are always original + offset * direction (offset returns to exactly 0.0): adding and subtracting
                # steps in place would leave the parameters a rounding error away from where they started
                self.off = self.off + step if abs(self.off + step) > 1e-12 * abs(step) else 0.0
                if self.kind in ("inputs", "context"):
                    self.val = self.orig[0] + self.off * self.ds[0]
                else:
                    for t, o, d in zip(self.tensors, self.orig, self.ds):
                        t.copy_(o + self.off * d)

        groups = [("inputs", [Xr], [grads[0]])]
        off = 1
        if Cr is not None:
            groups.append(("context", [Cr], [grads[1]]))
            off = 2
        pg = list(zip([p for _, p in params], grads[off:], [nm for nm, _ in params]))
        if pg:
            idx = torch.randperm(len(pg), generator=g)[:4].tolist()
            for i in idx:
                groups.append(("param:" + pg[i][2], [pg[i][0]], [pg[i][1]]))
            groups.append(("all parameters", [p for p, _, _ in pg], [gr for _, gr, _ in pg]))
        any_param_nonzero = False
        for kind, ts, grs in groups:
            ds = [torch.randn(t.shape, generator=g) for t in ts]
            an = sum(float((gr * d).sum()) for gr, d in zip(grs, ds) if gr is not None)
            ap = Dir("inputs" if kind == "inputs" else ("context" if kind == "context" else "param"), ts, ds)
            jitter = 0.0
            try:
                f1, f2 = fd(ap, 1e-6), fd(ap, 5e-7)
                # rounding jitter of s itself: steps of 1e-13 move a smooth s by ~1e-13 * slope; anything beyond that is noise of the
                # evaluation (inverse directions amplify rounding), which the difference quotients divide by h
                vals_ = []
                with torch.no_grad():
                    for dl in (0.0, 1e-13, 3e-13, -2e-13):
                        ap(dl - ap.off)
                        vals_.append(float(s_of(X if ap.kind != "inputs" else ap.val, C if ap.kind != "context" else ap.val)))
                    ap(-ap.off)
                jitter = max(abs(v_ - vals_[0]) for v_ in vals_[1:]) if all(np.isfinite(vals_)) else float("inf")
                jitter = max(jitter, ulp_jitter)
            except Exception as e:
                if type(e).__name__ == "InputOutsideDomain":
                    res.inconclusive += 1
                    continue
                raise
            if not (np.isfinite(f1) and np.isfinite(f2)):
                res.inconclusive += 1
                continue
            # a point EXACTLY on a kink (batch norm of a constant batch feeds exactly its bias, 0.0 at initialisation, into a ReLU) is
            # symmetric: both central differences agree, but the forward and the backward difference do not
            if target != "sample" and abs(one_sided[0] - one_sided[1]) > 20 * tolrel * (1 + abs(f2)) + 8 * abs(f1 - f2) + 64 * 2.2e-16 * abs(float(s)) / 5e-7:
                res.inconclusive += 1
                res.labels.append("kink_at_the_point")
                continue
            if abs(f1 - f2) > 1e-4 * (1 + abs(f1)) * (20 if umnn_any else 1):
                res.inconclusive += 1          # the two step sizes disagree: a kink lies within h of the point
                res.labels.append("kink")
                continue
            fr = (4 * f2 - f1) / 3.0                       # Richardson-extrapolated central difference
            # never tighter than what the two step sizes resolve, nor than the rounding noise u*|s|/h of the differences themselves
            tol = tolrel * (1 + abs(fr)) + 1e-7 + 4 * abs(f1 - f2) + 64 * 2.2e-16 * abs(float(s)) / 5e-7 + 4 * jitter / 5e-7
            if 4 * jitter / 5e-7 > 10 * tolrel * (1 + abs(fr)):
                res.inconclusive += 1        # the evaluation is too noisy for difference quotients at these step sizes
                res.labels.append("noisy_evaluation")
                continue
            err = abs(an - fr)
            f1 = fr
            res.see_ratio(err, tol)
            if kind.startswith(("param", "all")) and abs(f1) > 1e-6:
                any_param_nonzero = True
            if err > tol:
                unused = all(gr is None for gr in grs)
                res.fail("gradient_missing" if unused else "gradient_mismatch", site,
                         "d s/d %s along a random direction: autograd %.8g, central difference %.8g (target %s, mode %s)" % (kind, an, f1, target, case["mode"]),
                         measured=err, tol=tol, target=target, wrt=kind.split(":")[0], wrt_leaf=kind.split(".")[-1])
                res.nontrivial = True
                return res
        res.nontrivial = any_param_nonzero
    return res
