"""C14 - normalisation layers follow their documented life-cycle over every history (lock-step reference model)."""
import copy
import math

import numpy as np
import torch
from hypothesis import strategies as st

from vf.core import CaseResult, dtype_mode

PROPERTY = "C14"
RULE = ("A history (2-20 operations, one shrinkable list) over {train(), eval(), forward(batch of 2-6 rows, 2-D or for ActNorm "
        "4-D), inverse(batch), save+load into a fresh instance (continue with the new one), deepcopy} on ActNorm or BatchNorm "
        "(momentum/eps drawn), float64, run in lock-step with a reference model of the documented behaviour. ActNorm: only "
        "the first training-mode forward initialises (that batch leaves with per-feature/channel mean 0 and variance 1, biased "
        "or unbiased accepted), parameters never change afterwards, eval forwards and inverses before that leave it "
        "uninitialised, the flag survives save/load. BatchNorm: training forward normalises with the batch's own statistics "
        "and moves the running statistics by r <- (1-m) r + m stat (variance convention read off the first update and then "
        "held), eval forward uses running statistics and changes nothing, inverse raises InverseNotAvailable in training and "
        "is the exact inverse of eval forward in eval. Outputs, log-dets and state_dict are compared after EVERY step "
        "(1e-9). Forward passes also arrive through Flow.transform_to_noise of a training-mode flow wrapped around the layer (the layer keeps "
        "its own mode). Each forward/inverse runs with autograd on or inside torch.no_grad(); batch scales 3 .. 1e-5 (float64), offsets up to -1000. "
        "1 case in 12: MaskedAutoregressiveFlow / SimpleRealNVP built with batch_norm_between_layers=True, 1-3 layers, 1-3 training-mode "
        "log_prob passes; inputs of every batch-norm position are recorded with forward pre-hooks and each position's running statistics "
        "must follow the momentum rule for the batches it saw. "
        "Non-trivial: a training forward followed later by a mode switch or save/load and another call.")
ASSUMPTIONS = ["training-mode batches have >= 2 rows with non-constant columns", "no optimiser step is generated (parameters "
               "only change through the documented initialisation / running-statistics rule)"]
EXPLANATION = "generated histories"


def budget(tier):
    return {"examples": 8000 if tier == "quick" else 200000, "wall_s": 100 if tier == "quick" else 1500}


@st.composite
def _op(draw):
    k = draw(st.sampled_from(["train", "eval", "forward", "forward", "forward", "inverse", "save_load", "deepcopy", "flow_noise"]))
    op = {"op": k}
    if k in ("forward", "inverse", "flow_noise"):
        op["seed"] = draw(st.integers(0, 1000))
        op["rows"] = draw(st.sampled_from([1, 2, 3, 4, 6]))    # 1 row: legal for 4-D ActNorm batches (statistics over H*W pixels)
        op["scale"] = draw(st.sampled_from([1.0, 3.0, 0.2, 1e-3, 1e-4, 1e-5]))     # tiny natural scales: float64 cases only (see _batch)
        op["shift"] = draw(st.sampled_from([0.0, 2.0, -5.0, 300.0, -1000.0])) if op["scale"] >= 0.2 else draw(st.sampled_from([0.0, 2.0]))
        op["nograd"] = draw(st.booleans())      # inside torch.no_grad(), as when sampling / evaluating
    return op


@st.composite
def _case(draw):
    if draw(st.integers(0, 11)) == 0:
        # the library's own flows with batch_norm_between_layers=True: every batch-norm POSITION has its own running statistics,
        # which follow the momentum rule for the batches that position saw
        return {"kind": "lib_flow", "which": draw(st.sampled_from(["maf", "realnvp"])), "features": draw(st.integers(2, 4)),
                "layers": draw(st.integers(1, 3)), "passes": draw(st.integers(1, 3)), "rows": draw(st.integers(3, 9)),
                "shift": draw(st.sampled_from([0.0, 2.0, -5.0])), "seed": draw(st.integers(0, 10 ** 6))}
    kind = draw(st.sampled_from(["actnorm", "batchnorm"]))
    c = {"kind": kind, "features": draw(st.integers(1, 4)), "start_eval": draw(st.booleans()), "precise": draw(st.sampled_from([True, True, False])),
         "ops": draw(st.lists(_op(), min_size=2, max_size=20))}
    if kind == "actnorm":
        c["img"] = draw(st.booleans())
        c["hw"] = draw(st.sampled_from([[2, 2], [1, 3], [3, 2]]))
    else:
        c["momentum"] = draw(st.sampled_from([0.1, 0.5, 0.9, 0.01, 0.0, 1.0]))     # boundary values: statistics frozen / replaced
        c["eps"] = draw(st.sampled_from([1e-5, 1e-3]))
    return c


def case_strategy(tier):
    return _case()


def _batch(case, op):
    g = torch.Generator().manual_seed(op["seed"])
    f = case["features"]
    rows = op["rows"]
    if rows < 2 and not case.get("img"):
        rows = 2            # a single 2-D row has no variance: outside the documented domain
    shape = [rows, f] + (case["hw"] if case.get("img") else [])
    scale = op["scale"] if case.get("precise", True) else max(op["scale"], 0.2)     # |x|/std ~ 1e5 is not a float32 question
    x = torch.randn(shape, generator=g, dtype=torch.float64) * scale + op["shift"] + torch.arange(f, dtype=torch.float64).reshape([1, f] + [1] * (len(shape) - 2))
    return x


def _sd_equal(sd, ref, tol=1e-9):
    for k, v in ref.items():
        if k not in sd:
            return "state_dict lacks %s" % k
        a, b = sd[k].double(), torch.as_tensor(v, dtype=torch.float64)
        if a.shape != b.shape:
            return "%s shape %s vs %s" % (k, tuple(a.shape), tuple(b.shape))
        if a.numel() and float(((a - b).abs() - tol * (b.abs() + (1e-3 if tol > 1e-6 else 1e-6))).max()) > 0:
            return "%s = %s, reference model %s" % (k, a.reshape(-1).tolist()[:4], b.reshape(-1).tolist()[:4])
    return None


def _run_case(case):
    from nflows import transforms as T
    from nflows.transforms.base import InverseNotAvailable

    res = CaseResult()
    f = case["features"]
    with dtype_mode(case.get("precise", True)):
        TOL = 1e-9 if case.get("precise", True) else 2e-3   # float32: the subject sees float32 data, the model runs in float64
        DT = torch.get_default_dtype()
        if case["kind"] == "actnorm":
            mk = lambda: T.ActNorm(f)  # noqa
            model = {"initialized": False, "log_scale": torch.zeros(f, dtype=torch.float64), "shift": torch.zeros(f, dtype=torch.float64)}
        else:
            mk = lambda: T.BatchNorm(f, eps=case["eps"], momentum=case["momentum"])  # noqa
            model = {"running_mean": torch.zeros(f, dtype=torch.float64), "running_var": torch.zeros(f, dtype=torch.float64), "conv": None}
        subj = mk()
        site = type(subj).__name__
        training = True
        if case["start_eval"]:
            subj.eval()
            training = False
        hist = []
        trained_fwd, switched = False, False
        res.labels += ["kind:" + case["kind"] + (":4D" if case.get("img") else ""), "dtype:%s" % ("f64" if case.get("precise", True) else "f32")]
        for step, op in enumerate(case["ops"]):
            torch.set_grad_enabled(True)
            k = op["op"]
            # "flow_noise": the same forward pass, reached through Flow.transform_to_noise of a (training-mode) flow wrapped around the
            # layer - whose own mode may differ from the flow's and must stay what it is
            via_flow = k == "flow_noise"
            if via_flow:
                k = "forward"

            def fwd(x_):
                if not via_flow:
                    return subj(x_)
                from nflows.flows import Flow
                from nflows.distributions import StandardNormal
                probe = copy.deepcopy(subj)
                flow_ = Flow(subj, StandardNormal(list(x_.shape[1:])))
                y_ = flow_.transform_to_noise(x_)
                return y_, probe(x_)[1]
            hist.append(("flow_noise:" if via_flow else "") + k + ("" if k not in ("forward", "inverse") else ("(T)" if training else "(E)") + ("[no_grad]" if op.get("nograd") else "")))
            if k == "train":
                subj.train()
                training = True
                switched = switched or trained_fwd
            elif k == "eval":
                subj.eval()
                training = False
                switched = switched or trained_fwd
            elif k == "save_load":
                new = mk()
                new.load_state_dict(subj.state_dict())
                new.train(training)
                subj = new
                switched = switched or trained_fwd
            elif k == "deepcopy":
                subj = copy.deepcopy(subj)
            else:
                torch.set_grad_enabled(not op.get("nograd", False))
                xb = _batch(case, op)
                if case["kind"] == "actnorm" and not case.get("precise", True) and abs(op["shift"]) > 10:
                    xb = xb - op["shift"]      # float32 ActNorm output = scale*x + shift cancels catastrophically for |x|/std ~ 1e5
                xd = xb.to(DT).double()      # exactly the values the subject sees, in float64 for the model
                x = xd.to(DT)
                red = [0] + list(range(2, x.dim()))
                n_per = x.numel() // f
                if case["kind"] == "actnorm":
                    hw = (x.shape[2] * x.shape[3]) if x.dim() == 4 else 1
                    bshape = [1, f] + [1] * (x.dim() - 2)
                    if k == "forward":
                        y, ld = fwd(x)
                        y, ld = y.double(), ld.double()
                        if training and not model["initialized"]:
                            # data-dependent initialisation happens here and only here
                            mean = y.mean(red)
                            var_b = y.var(red, unbiased=False)
                            t0 = 1e-8 if TOL < 1e-6 else 5e-3
                            # outputs are scale*x + shift with |scale*x| up to amp, so their mean carries ~amp*u noise and their
                            # variance twice that, relatively (two rows that happen to differ by 1e-6 at offset 300: amp = 3e8)
                            amp = float(xd.abs().max()) * float(torch.exp(subj.state_dict()["log_scale"].double()).max())
                            noise = 16 * (2.0 ** -52 if TOL < 1e-6 else 2.0 ** -23) * amp
                            tv = t0 + 4 * noise     # (single precision too: two float32 rows 4.7e-6 apart at 3.19 give amp = 1e6)
                            ok_var = bool(((var_b - 1).abs() < tv).all()) or bool(((var_b * n_per / (n_per - 1) - 1).abs() < tv).all())
                            if float(mean.abs().max()) > t0 + noise or not ok_var:
                                res.fail("actnorm_init", site, "first training forward: outputs have mean %s, biased variance %s (history %s)" % (
                                    mean.tolist(), var_b.tolist(), hist))
                                return res
                            sd = subj.state_dict()
                            if not bool(sd["initialized"]):
                                res.fail("actnorm_flag", site, "initialized flag still False after the first training forward")
                                return res
                            model.update(initialized=True, log_scale=sd["log_scale"].double().clone(), shift=sd["shift"].double().clone())
                        ref = torch.exp(model["log_scale"]).reshape(bshape) * xd + model["shift"].reshape(bshape)
                        lref = hw * float(model["log_scale"].sum())
                        # scale*x and shift cancel: the sum carries the rounding of its larger term (two rows 4.7e-6 apart: |scale*x| = 1e6)
                        cancel = 16 * (2.0 ** -52 if TOL < 1e-6 else 2.0 ** -23) * float((torch.exp(model["log_scale"]).reshape(bshape) * xd).abs().max())
                    else:
                        y, ld = subj.inverse(x)
                        y, ld = y.double(), ld.double()
                        ref = (xd - model["shift"].reshape(bshape)) / torch.exp(model["log_scale"]).reshape(bshape)
                        lref = -hw * float(model["log_scale"].sum())
                        cancel = 0.0
                    if float((y - ref).abs().max()) > TOL * (1 + float(ref.abs().max())) + cancel or float((ld - lref).abs().max()) > TOL * (1 + abs(lref)):
                        res.fail("actnorm_output", site, "step %d %s: outputs/log-det differ from the reference model (max %.3g / %.3g); history %s" % (
                            step, hist[-1], float((y - ref).abs().max()), float((ld - lref).abs().max()), hist))
                        return res
                    bad = _sd_equal(subj.state_dict(), {"initialized": torch.tensor(float(model["initialized"])),
                                                        "log_scale": model["log_scale"], "shift": model["shift"]}, TOL)
                    if bad:
                        res.fail("actnorm_state", site, "step %d %s: %s; history %s" % (step, hist[-1], bad, hist))
                        return res
                else:
                    w = torch.nn.functional.softplus(subj.unconstrained_weight.detach().double()) + case["eps"]
                    b = subj.bias.detach().double()
                    m_ = case["momentum"]
                    if k == "forward":
                        y, ld = fwd(x)
                        y, ld = y.double(), ld.double()
                        if training:
                            mean = xd.mean(0)
                            cands = {"unbiased": xd.var(0, unbiased=True), "biased": xd.var(0, unbiased=False)}
                            # normalisation convention (outputs)
                            oks = [c for c, v in cands.items()
                                   if float((y - (w * (xd - mean) / torch.sqrt(v + case["eps"]) + b)).abs().max()) < TOL * (1 + float(y.abs().max()))
                                   + (0 if TOL < 1e-6 else 2.0 ** -20 * float(xd.abs().max()) / float(torch.sqrt(v + case["eps"]).min()))]
                            if not oks:
                                res.fail("batchnorm_train_output", site, "training forward does not normalise with the batch statistics; history %s" % hist)
                                return res
                            vy = cands[oks[0]]
                            lref = float((torch.log(w) - 0.5 * torch.log(vy + case["eps"])).sum())
                            # running statistics: momentum rule, convention fixed at the first update
                            new_mean = (1 - m_) * model["running_mean"] + m_ * mean
                            sd = subj.state_dict()
                            conv = model["conv"]
                            if conv is None:
                                best = None
                                for c, v in cands.items():
                                    dv = float((sd["running_var"].double() - ((1 - m_) * model["running_var"] + m_ * v)).abs().max())
                                    if dv < (1e-9 if TOL < 1e-6 else 1e-3) * (m_ * float(v.abs().max()) + float(model["running_var"].abs().max())) + 1e-300 and \
                                            (best is None or dv < best):
                                        conv, best = c, dv      # the closer of the two (they differ by the factor n/(n-1))
                                if conv is None:
                                    res.fail("batchnorm_running", site, "running_var after the first training forward follows neither variance convention "
                                             "under r<-(1-m)r+m*stat: %s; history %s" % (sd["running_var"].tolist(), hist))
                                    return res
                                model["conv"] = conv
                            model["running_mean"] = new_mean
                            model["running_var"] = (1 - m_) * model["running_var"] + m_ * cands[conv]
                            trained_fwd = True
                        else:
                            ref = w * (xd - model["running_mean"]) / torch.sqrt(model["running_var"] + case["eps"]) + b
                            lref = float((torch.log(w) - 0.5 * torch.log(model["running_var"] + case["eps"])).sum())
                            if float((y - ref).abs().max()) > TOL * (1 + float(ref.abs().max())) * (1 + float((w / torch.sqrt(model["running_var"] + case["eps"])).max()) * (0 if TOL < 1e-6 else 1)):
                                res.fail("batchnorm_eval_output", site, "eval forward does not use the running statistics (max diff %.3g); history %s" % (
                                    float((y - ref).abs().max()), hist))
                                return res
                        if float((ld - lref).abs().max()) > TOL * (1 + abs(lref)):
                            res.fail("batchnorm_logdet", site, "step %d %s: log-det %s, reference %r; history %s" % (step, hist[-1], ld.tolist()[:3], lref, hist))
                            return res
                    else:
                        if training:
                            try:
                                subj.inverse(x)
                            except InverseNotAvailable:
                                pass
                            else:
                                res.fail("batchnorm_inverse_in_training", site, "inverse returned in training mode; history %s" % hist)
                                return res
                        else:
                            y, ld = subj.inverse(x)
                            y, ld = y.double(), ld.double()
                            ref = torch.sqrt(model["running_var"] + case["eps"]) * (xd - b) / w + model["running_mean"]
                            lref = -float((torch.log(w) - 0.5 * torch.log(model["running_var"] + case["eps"])).sum())
                            if float((y - ref).abs().max()) > TOL * (1 + float(ref.abs().max())) or float((ld - lref).abs().max()) > TOL * (1 + abs(lref)):
                                res.fail("batchnorm_eval_inverse", site, "eval inverse is not the inverse of eval forward; history %s" % hist)
                                return res
                    bad = _sd_equal(subj.state_dict(), {"running_mean": model["running_mean"], "running_var": model["running_var"]}, TOL)
                    if bad:
                        res.fail("batchnorm_state", site, "step %d %s: %s; history %s" % (step, hist[-1], bad, hist))
                        return res
                if bool(subj.training) != bool(training):
                    res.fail("mode_changed_by_call", site, "step %d %s: the layer's training flag is %s after the call, it was %s before; history %s" % (
                        step, hist[-1], subj.training, training, hist))
                    return res
                if case["kind"] == "actnorm" and training and k == "forward":
                    trained_fwd = True
                if trained_fwd and switched:
                    res.nontrivial = True
    return res


def _lib_flow(case):
    from nflows import transforms as T
    from nflows.flows import MaskedAutoregressiveFlow, SimpleRealNVP

    res = CaseResult()
    with dtype_mode(True):
        torch.manual_seed(case["seed"])
        f = case["features"]
        mk = MaskedAutoregressiveFlow if case["which"] == "maf" else SimpleRealNVP
        flow = mk(f, 8, case["layers"], 1, batch_norm_between_layers=True)
        site = mk.__name__
        res.labels += ["kind:lib_flow", "which:" + case["which"], "layers:%d" % case["layers"]]
        pos = [t for t in flow._transform._transforms if isinstance(t, T.BatchNorm)]
        if not pos:
            res.fail("no_batch_norm", site, "batch_norm_between_layers=True built a flow without a BatchNorm transform")
            return res
        mom = float(pos[0].momentum)
        model = [(t.running_mean.detach().double().clone(), t.running_var.detach().double().clone()) for t in pos]   # (as constructed)
        calls = []
        hooks = [t.register_forward_pre_hook(lambda mod, inp: calls.append(inp[0].detach().clone())) for t in {id(t): t for t in pos}.values()]
        try:
            flow.train()
            g = torch.Generator().manual_seed(case["seed"] + 1)
            for ps in range(case["passes"]):
                x = torch.randn(case["rows"], f, generator=g) * 1.5 + case["shift"]
                del calls[:]
                lp = flow.log_prob(x)
                if not bool(torch.isfinite(lp).all()):
                    res.inconclusive += 1
                    return res
                if len(calls) != len(pos):
                    res.fail("batch_norm_calls", site, "%d batch-norm positions but %d batch-norm calls in one pass" % (len(pos), len(calls)))
                    return res
                ok = {}
                for conv in (True, False):          # running variance from the unbiased or the biased batch variance: either convention
                    cand = [((1 - mom) * mu + mom * xk.mean(0), (1 - mom) * va + mom * xk.var(0, unbiased=conv)) for (mu, va), xk in zip(model, calls)]
                    bad = None
                    for k, (t, (mu, va)) in enumerate(zip(pos, cand)):
                        e = max(float((t.running_mean.double() - mu).abs().max()), float((t.running_var.double() - va).abs().max()))
                        if e > 1e-9 * (1 + float(mu.abs().max()) + float(va.abs().max())):
                            bad = (k, e)
                            break
                    ok[conv] = (bad, cand)
                good = [c_ for c_ in (True, False) if ok[c_][0] is None]
                if not good:
                    k, e = ok[True][0]
                    res.fail("running_stats_wrong", site, "pass %d: running statistics of batch-norm position %d of %d are off by %.3g from the momentum "
                             "rule applied to the batch that position saw" % (ps, k, len(pos), e), measured=e, position=min(k, 1), passes=min(ps, 1))
                    res.nontrivial = True
                    return res
                model = ok[good[0]][1]
            res.nontrivial = len(pos) >= 2
        finally:
            for h in hooks:
                h.remove()
    return res


def run_case(case):
    if case.get("kind") == "lib_flow":
        return _lib_flow(case)
    try:
        return _run_case(case)
    finally:
        torch.set_grad_enabled(True)
