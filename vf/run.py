"""CLI: python -m vf.run <ID> <quick|thorough> [--replay FILE]"""
import sys


def main(argv):
    if len(argv) < 2 or argv[1] not in ("quick", "thorough"):
        print("usage: ./check <ID> <quick|thorough> [--replay FILE]", file=sys.stderr)
        return 2
    prop, tier = argv[0].upper(), argv[1]
    replay = None
    if "--replay" in argv:
        replay = argv[argv.index("--replay") + 1]
    from vf import core

    try:
        return core.run_check(prop, tier, replay)
    except core.HarnessError as e:
        print("harness error: %s" % e, file=sys.stderr)
        return 2


if __name__ == "__main__":
    try:
        rc = main(sys.argv[1:])
    except SystemExit:
        raise
    except BaseException:
        import traceback

        traceback.print_exc()
        rc = 2
    sys.exit(rc)
